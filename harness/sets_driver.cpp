// Replay driver for SampleSets.tla: every path of the TLC state graph is executed on the real cluster_t and on the testing
// marks of a real datasource_t; after EVERY step the public accessors are compared with the specification's state.
//   sets_driver <plan.txt> <out.ndjson>
// plan:  P <N> <G> <nsteps> <fromList 0/1> <initmask>   then nsteps lines:  A s g | T b e | Z   each followed by the expected state
//        E <grp_0 .. grp_{N-1}> <testing_0 .. testing_{N-1}>
#include "tabledata.h"
#include <fstream>
#include <nano/machine/cluster.h>
#include <sstream>

using namespace nano;

namespace
{
std::vector<int64_t> to_vec(const indices_t& v)
{
    return {v.begin(), v.end()};
}

struct observer_t
{
    int64_t mismatches{0};
    int64_t compared{0};

    void expect(const char* what, const std::vector<int64_t>& impl, const std::vector<int64_t>& spec, int64_t path, int64_t step)
    {
        ++compared;
        if (impl != spec && mismatches++ < 20)
        {
            vt::put(vt::J("Mismatch").s("what", what).a("impl", impl).a("spec", spec).i("path", path).i("step", step));
        }
    }
};
} // namespace

int main(int argc, char** argv)
{
    if (argc < 3)
    {
        return 2;
    }
    std::ifstream in(argv[1]);
    vt::Trace::get().open(argv[2]);
    observer_t  obs;
    int64_t     paths = 0, steps = 0;
    std::string tok;
    while (in >> tok)
    {
        if (tok != "P")
        {
            std::fprintf(stderr, "bad plan token %s\n", tok.c_str());
            return 2;
        }
        int64_t N = 0, G = 0, n = 0, from_list = 0, mask = 0;
        in >> N >> G >> n >> from_list >> mask;
        // the cluster: either empty with G groups or built from an index list (given in decreasing order: order must not matter)
        cluster_t cluster;
        if (from_list != 0)
        {
            std::vector<tensor_size_t> list;
            for (int64_t s = N - 1; s >= 0; --s)
            {
                if (((mask >> s) & 1) != 0)
                {
                    list.push_back(s);
                }
            }
            indices_t indices(static_cast<tensor_size_t>(list.size()));
            for (size_t i = 0; i < list.size(); ++i)
            {
                indices(static_cast<tensor_size_t>(i)) = list[i];
            }
            cluster = cluster_t{N, indices};
        }
        else
        {
            cluster = cluster_t{N, G};
        }
        // the data source: N samples, one scalar feature
        vt::column_t col;
        col.feature = feature_t{"x"}.scalar(feature_type::float64);
        col.flat.assign(static_cast<size_t>(N), 1.0);
        col.missing.assign(static_cast<size_t>(N), 0);
        vt::table_datasource_t source(N, {col}, 1U);
        source.load();

        for (int64_t k = 0; k < n; ++k, ++steps)
        {
            std::string op;
            in >> op;
            if (op == "A")
            {
                int64_t s = 0, g = 0;
                in >> s >> g;
                cluster.assign(s, g);
            }
            else if (op == "T")
            {
                int64_t b = 0, e = 0;
                in >> b >> e;
                source.testing(make_range(b, e));
            }
            else if (op == "Z")
            {
                source.no_testing();
            }
            std::string e;
            in >> e;
            std::vector<int64_t> grp(static_cast<size_t>(N)), testing(static_cast<size_t>(N));
            for (auto& v : grp)
            {
                in >> v;
            }
            for (auto& v : testing)
            {
                in >> v;
            }
            // compare every accessor with the specification's state
            std::vector<int64_t> impl_grp;
            for (int64_t s = 0; s < N; ++s)
            {
                impl_grp.push_back(cluster.group(s));
            }
            obs.expect("group(sample)", impl_grp, grp, paths, k);
            obs.expect("groups()", {cluster.groups()}, {from_list != 0 ? 1 : G}, paths, k);
            obs.expect("samples()", {cluster.samples(), source.samples()}, {N, N}, paths, k);
            for (int64_t g = 0; g < cluster.groups(); ++g)
            {
                std::vector<int64_t> spec, looped;
                for (int64_t s = 0; s < N; ++s)
                {
                    if (grp[static_cast<size_t>(s)] == g)
                    {
                        spec.push_back(s);
                    }
                }
                cluster.loop(g, [&](const tensor_size_t i) { looped.push_back(i); });
                obs.expect("indices(group)", to_vec(cluster.indices(g)), spec, paths, k);
                obs.expect("loop(group)", looped, spec, paths, k);
                obs.expect("count(group)", {cluster.count(g)}, {static_cast<int64_t>(spec.size())}, paths, k);
            }
            std::vector<int64_t> train, test;
            for (int64_t s = 0; s < N; ++s)
            {
                (testing[static_cast<size_t>(s)] != 0 ? test : train).push_back(s);
            }
            obs.expect("train_samples()", to_vec(source.train_samples()), train, paths, k);
            obs.expect("test_samples()", to_vec(source.test_samples()), test, paths, k);
        }
        ++paths;
    }
    vt::put(vt::J("Summary").i("paths", paths).i("steps", steps).i("compared", obs.compared).i("mismatches", obs.mismatches));
    return 0;
}
