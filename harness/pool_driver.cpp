// C17 conformance driver: exercises nano::parallel::pool_t under randomized schedules and records one event per
// specification action (hooks inside the pool mutex + the driver's own operator/caller events), ordered by the
// sequence number taken at the hook; big map() calls are recorded as (chunk, worker id, interval) lists (also on pools whose size the
// library chooses: pool_t(), pool_t(0), pool_t(max_size() + 5)); the futures of raw enqueue()d tasks (completing, throwing, still queued
// when the pool is destroyed) are asked while the pool is alive or looked at after its destruction.
//
// usage: pool_driver <out.ndjson> <seed> <small-cases> <big-cases> [maxevents]
#include "trace.h"
#include <algorithm>
#include <atomic>
#include <chrono>
#include <cstring>
#include <future>
#include <memory>
#include <nano/core/parallel.h>
#include <stdexcept>
#include <thread>

using namespace nano;

namespace
{
// "a task's exception" is any C++ exception: the throwing tasks rotate through a standard exception, a plain struct, an integer and a string
struct task_failure_t
{
    int code{7};
};

[[noreturn]] void throw_any(const int64_t salt)
{
    switch (salt % 4)
    {
    case 0: throw std::runtime_error("task failure");
    case 1: throw task_failure_t{};
    case 2: throw 42;
    default: throw std::string("task failure");
    }
}

struct ev_t
{
    const char* e{nullptr};
    int64_t     v[7]{-1, -1, -1, -1, -1, -1, -1};
    int         tid{-1};
};

constexpr size_t      max_events = 1U << 20U;
std::vector<ev_t>     g_events(max_events);
std::atomic<uint64_t> g_overflow{0};
thread_local int      g_tid = -1; // caller id for caller threads, -1 otherwise
std::atomic<int64_t>  g_case{0};
std::atomic<int64_t>  g_case_started_ms{0};
std::atomic<bool>     g_record{true};

int64_t now_ms()
{
    return std::chrono::duration_cast<std::chrono::milliseconds>(std::chrono::steady_clock::now().time_since_epoch()).count();
}

void store(uint64_t seq, const char* e, std::initializer_list<int64_t> vals)
{
    if (seq >= max_events)
    {
        g_overflow++;
        return;
    }
    auto& ev = g_events[seq];
    int   i  = 0;
    for (const auto v : vals)
    {
        ev.v[i++] = v;
    }
    ev.tid = g_tid;
    ev.e   = e; // NB: written last
}

void hook_sink(uint64_t seq, const char* e, int64_t a, int64_t b)
{
    store(seq, e, {a, b});
}

void emit(const char* e, std::initializer_list<int64_t> vals)
{
    if (g_record.load(std::memory_order_relaxed))
    {
        store(verif::sequence().fetch_add(1, std::memory_order_seq_cst), e, vals);
    }
}

void flush_events(bool complete)
{
    const auto n = std::min<uint64_t>(verif::sequence().load(), max_events);
    for (uint64_t i = 0; i < n; ++i)
    {
        const auto& ev = g_events[i];
        if (ev.e == nullptr)
        {
            if (complete)
            {
                vt::put(vt::J("Abort").s("why", "missing event slot"));
            }
            continue;
        }
        vt::J j(ev.e);
        const auto is = [&](const char* name) { return std::strcmp(ev.e, name) == 0; };
        if (is("MapCall"))
        {
            j.i("c", ev.v[0]).i("k", ev.v[1]).i("n", ev.v[2]).i("chunk", ev.v[3]).b("raise", ev.v[4] != 0);
        }
        else if (is("Begin"))
        {
            j.i("c", ev.v[0]).i("k", ev.v[1]).i("b", ev.v[2]).i("en", ev.v[3]).i("tnum", ev.v[4]).b("inl", ev.v[5] != 0);
        }
        else if (is("End"))
        {
            j.i("c", ev.v[0]).i("k", ev.v[1]).i("b", ev.v[2]).i("en", ev.v[3]).i("tnum", ev.v[4]).b("inl", ev.v[5] != 0).b(
                "threw", ev.v[6] != 0);
        }
        else if (is("MapRet"))
        {
            j.i("c", ev.v[0]).i("k", ev.v[1]).s("outcome", ev.v[2] == 0 ? "ok" : "rethrow");
        }
        else if (is("EnqCall"))
        {
            j.i("c", ev.v[0]).i("k", ev.v[1]);
        }
        else if (is("Future"))
        {
            static const char* const outcomes[] = {"ok", "threw", "broken", "pending", "other"};
            j.i("c", ev.v[0]).i("k", ev.v[1]).s("outcome", outcomes[std::clamp<int64_t>(ev.v[2], 0, 4)]).b("alive", ev.v[3] != 0);
        }
        else
        {
            j.i("a", ev.v[0]).i("b", ev.v[1]).i("tid", ev.tid);
        }
        vt::put(j);
    }
}

void reset_events()
{
    const auto n = std::min<uint64_t>(verif::sequence().load(), max_events);
    for (uint64_t i = 0; i < n; ++i)
    {
        g_events[i] = ev_t{};
    }
    verif::sequence().store(0);
}

void watchdog(int64_t limit_ms)
{
    while (true)
    {
        std::this_thread::sleep_for(std::chrono::milliseconds(200));
        const auto started = g_case_started_ms.load();
        if (started > 0 && now_ms() - started > limit_ms)
        {
            // a hang: lost wake-up, deadlock on destruction, map() never returning ...
            flush_events(false);
            vt::put(vt::J("Timeout").i("case", g_case.load()));
            _exit(0);
        }
    }
}

struct call_t
{
    int     kind{0}; // 0: map(n), 1: map(n, chunk), 2: enqueue
    int64_t n{0};
    int64_t chunk{1};
    bool    raise{true};
    int     throw_permille{0};
    int     future{0};     // enqueue: 0 = the future is discarded, 1 = get() at once (the pool is alive), 2 = looked at after the pool is destroyed
    bool    throws{false}; // enqueue: the raw task throws
    bool    slow{false};   // enqueue: the raw task takes a while (the tasks behind it are still queued when the pool is destroyed)
};

// what the future of a raw task delivers: 0 = completed, 1 = the task's exception, 2 = broken promise (the task was destroyed without having
// run), 3 = not ready (only asked after the destruction of the pool, where nothing can make it ready any more: never waits), 4 = another exception
int64_t future_outcome(parallel::future_t& future, const bool may_block)
{
    if (!may_block && future.wait_for(std::chrono::seconds(0)) != std::future_status::ready)
    {
        return 3;
    }
    try
    {
        future.get();
        return 0;
    }
    catch (const std::runtime_error&)
    {
        return 1;
    }
    catch (const std::future_error& e)
    {
        return e.code() == std::future_errc::broken_promise ? 2 : 4;
    }
    catch (...)
    {
        return 4;
    }
}

void small_case(vt::Rng& rng, int64_t icase)
{
    const auto hw       = static_cast<int64_t>(parallel::pool_t::max_size());
    const auto sizes    = std::vector<int64_t>{1, 2, 2, 3, 3, 4, 5, 8, 16};
    const auto nw       = std::clamp<int64_t>(rng.pick(sizes), 1, hw);
    const auto ncallers = rng.range(1, 4);
    const auto sched    = rng.coin(3, 4) ? rng.range(0, 1 << 20) : -1;
    const auto destroy_late = rng.coin(1, 4);

    std::vector<std::vector<call_t>> plans(static_cast<size_t>(ncallers));
    for (auto& plan : plans)
    {
        const auto ncalls = rng.range(1, 3);
        for (int64_t k = 0; k < ncalls; ++k)
        {
            call_t call;
            call.kind  = static_cast<int>(rng.range(0, 9) < 4 ? 0 : (rng.range(0, 5) < 5 ? 1 : 2));
            call.n     = rng.range(0, 9);
            call.chunk = call.kind == 1 ? rng.range(1, call.n + 1) : 1;
            call.raise = rng.coin(2, 3);
            call.throw_permille = rng.coin(1, 3) ? 250 : 0;
            plan.push_back(call);
        }
        // often the last calls are raw enqueue()s: the pool is then destroyed while these tasks are still queued or running
        if (rng.coin())
        {
            for (int64_t k = 0, m = rng.range(1, 4); k < m; ++k)
            {
                call_t call;
                call.kind   = 2;
                call.future = static_cast<int>(rng.range(0, 2));
                call.throws = rng.coin(1, 3);
                call.slow   = rng.coin(1, 4);
                plan.push_back(call);
            }
        }
    }

    reset_events();
    verif::set_sched(sched);
    g_case.store(icase);
    g_case_started_ms.store(now_ms());

    vt::put(vt::J("Reset").i("workers", nw).i("callers", ncallers).i("case", icase).i("sched", sched));
    struct kept_t
    {
        int64_t            c, k;
        parallel::future_t future;
    };
    std::vector<kept_t> kept;
    std::mutex          kept_mutex;
    {
        parallel::pool_t pool(static_cast<size_t>(nw));

        std::vector<std::thread> threads;
        for (int64_t c = 0; c < ncallers; ++c)
        {
            threads.emplace_back(
                [&, c]
                {
                    g_tid = static_cast<int>(c);
                    vt::Rng trng(static_cast<uint64_t>(icase * 131 + c));
                    int64_t k = 0;
                    for (const auto& call : plans[static_cast<size_t>(c)])
                    {
                        ++k;
                        if (call.kind == 2)
                        {
                            emit("EnqCall", {c, k});
                            auto future = pool.enqueue(
                                [c, k, throws = call.throws, slow = call.slow](const size_t tnum)
                                {
                                    emit("Begin", {c, k, -1, -1, static_cast<int64_t>(tnum), 0});
                                    NANO_VERIF_YIELD(30);
                                    if (slow)
                                    {
                                        std::this_thread::sleep_for(std::chrono::microseconds(300));
                                    }
                                    emit("End", {c, k, -1, -1, static_cast<int64_t>(tnum), 0, throws ? 1 : 0});
                                    if (throws)
                                    {
                                        throw std::runtime_error("raw task failure");
                                    }
                                });
                            if (call.future == 1)
                            {
                                // the pool is alive: the task runs sooner or later, get() returns or delivers the task's exception
                                const auto outcome = future_outcome(future, true);
                                emit("Future", {c, k, outcome, 1});
                            }
                            else if (call.future == 2)
                            {
                                const std::scoped_lock lock(kept_mutex);
                                kept.push_back(kept_t{c, k, std::move(future)});
                            }
                            continue;
                        }
                        // the decision which tasks throw is taken up-front (deterministic per case)
                        std::vector<char> throws(static_cast<size_t>(call.n) + 1U, 0);
                        for (auto& t : throws)
                        {
                            t = static_cast<char>(trng.range(0, 999) < call.throw_permille);
                        }
                        const auto body = [&, c, k](int64_t begin, int64_t end, size_t tnum)
                        {
                            const auto inl = g_tid == static_cast<int>(c);
                            emit("Begin", {c, k, begin, end, static_cast<int64_t>(tnum), inl ? 1 : 0});
                            NANO_VERIF_YIELD(30);
                            const auto threw = throws[static_cast<size_t>(begin)] != 0;
                            emit("End", {c, k, begin, end, static_cast<int64_t>(tnum), inl ? 1 : 0, threw ? 1 : 0});
                            if (threw)
                            {
                                throw_any(begin);
                            }
                        };
                        emit("MapCall", {c, k, call.n, call.chunk, call.raise ? 1 : 0});
                        int64_t outcome = 0;
                        try
                        {
                            if (call.kind == 0)
                            {
                                pool.map(
                                    call.n, [&](int64_t index, size_t tnum) { body(index, index + 1, tnum); }, call.raise);
                            }
                            else
                            {
                                pool.map(
                                    call.n, call.chunk,
                                    [&](int64_t begin, int64_t end, size_t tnum) { body(begin, end, tnum); }, call.raise);
                            }
                        }
                        catch (...)
                        {
                            outcome = 1;
                        }
                        emit("MapRet", {c, k, outcome});
                    }
                });
        }
        for (auto& thread : threads)
        {
            thread.join();
        }
        if (destroy_late)
        {
            std::this_thread::sleep_for(std::chrono::microseconds(rng.range(0, 500)));
        }
    }
    emit("Destroyed", {});
    // the futures of raw tasks after the destruction of the pool: a task that ran delivers its completion / its exception; a task that was
    // still queued never ran (the future is then broken or never becomes ready: it is not waited for)
    for (auto& keep : kept)
    {
        emit("Future", {keep.c, keep.k, future_outcome(keep.future, false), 0});
    }
    g_case_started_ms.store(0);
    verif::set_sched(-1);
    flush_events(true);
    if (g_overflow.load() > 0)
    {
        vt::put(vt::J("Abort").s("why", "event buffer overflow"));
    }
}

// destruction races: a small pool runs one or two raw tasks and is destroyed at the very moment its workers go back to sleep
// (a stop flag raised without the queue's mutex, or a missing notification, is a lost wake-up here: ~pool_t() never returns)
void race_case(vt::Rng& rng, int64_t icase)
{
    const auto hw     = static_cast<int64_t>(parallel::pool_t::max_size());
    const auto nw     = std::clamp<int64_t>(rng.pick(std::vector<int64_t>{1, 1, 1, 2, 3}), 1, hw);
    const auto ntasks = rng.range(1, 2);
    const auto sched  = rng.coin(1, 4) ? rng.range(0, 1 << 20) : -1;
    const auto spin   = rng.range(0, 3000);

    reset_events();
    verif::set_sched(sched);
    g_case.store(icase);
    g_case_started_ms.store(now_ms());
    vt::put(vt::J("Reset").i("workers", nw).i("callers", 1).i("case", icase).i("sched", sched));
    std::vector<parallel::future_t> futures;
    {
        parallel::pool_t     pool(static_cast<size_t>(nw));
        std::atomic<int64_t> finished{0};
        g_tid = 0;
        for (int64_t k = 1; k <= ntasks; ++k)
        {
            emit("EnqCall", {0, k});
            futures.push_back(pool.enqueue(
                [k, &finished](const size_t tnum)
                {
                    emit("Begin", {0, k, -1, -1, static_cast<int64_t>(tnum), 0});
                    emit("End", {0, k, -1, -1, static_cast<int64_t>(tnum), 0, 0});
                    finished.fetch_add(1);
                }));
        }
        while (finished.load() < ntasks)
        {
        }
        for (volatile int64_t i = 0; i < spin; ++i)
        {
        }
    }
    emit("Destroyed", {});
    for (size_t k = 0; k < futures.size(); ++k)
    {
        emit("Future", {0, static_cast<int64_t>(k) + 1, future_outcome(futures[k], false), 0});
    }
    g_case_started_ms.store(0);
    verif::set_sched(-1);
    flush_events(true);
    if (g_overflow.load() > 0)
    {
        vt::put(vt::J("Abort").s("why", "event buffer overflow"));
    }
}

struct rec_t
{
    int64_t b, e, tnum, sb, se;
};

// ctor: -1 = pool_t(size within [1, max_size()]), 0 = pool_t(), 1 = pool_t(0), 2 = pool_t(max_size() + 5): the library chooses the size
void big_case(vt::Rng& rng, int64_t icase, const int ctor = -1)
{
    const auto hw       = static_cast<int64_t>(parallel::pool_t::max_size());
    auto       nw       = std::clamp<int64_t>(rng.range(1, 16), 1, hw);
    const auto ncallers = rng.range(1, 4);
    const auto sched    = rng.coin(1, 2) ? rng.range(0, 1 << 20) : -1;

    g_record.store(false);
    verif::sink().store(nullptr);
    verif::set_sched(sched);
    g_case.store(icase);
    g_case_started_ms.store(now_ms());

    std::atomic<int64_t> clock{0};
    struct out_t
    {
        int64_t            n, chunk, kind;
        std::vector<rec_t> recs;
        int64_t            raise{1}, permille{0}, nthrow{0}, outcome{0}, ret{0};
        uint64_t           tseed{0};
    };
    std::vector<out_t> outs(static_cast<size_t>(ncallers));
    for (auto& out : outs)
    {
        out.kind  = rng.range(0, 1);
        out.n     = rng.coin(1, 8) ? rng.range(0, 3) : rng.range(0, rng.coin(1, 4) ? 5000 : 400);
        out.chunk = out.kind == 1 ? (rng.coin(1, 6) ? out.n + 1 : rng.range(1, std::max<int64_t>(1, out.n / rng.range(1, 40)))) : 1;
        out.chunk = std::clamp<int64_t>(out.chunk, 1, out.n + 1);
        out.raise    = rng.coin(2, 3) ? 1 : 0;
        out.permille = rng.coin(1, 3) ? (rng.coin(1, 2) ? 2 : 100) : 0;
        out.tseed    = static_cast<uint64_t>(rng.range(0, 1 << 30));
    }
    {
        const auto requested = ctor == 1 ? int64_t{0} : ctor == 2 ? hw + 5 : nw;
        const auto ppool     = ctor == 0 ? std::make_unique<parallel::pool_t>() : std::make_unique<parallel::pool_t>(static_cast<size_t>(requested));
        auto&      pool      = *ppool;
        if (ctor >= 0)
        {
            // the size the library chose is the pool size of the records below (worker ids below it, inline path iff it is one)
            nw = static_cast<int64_t>(pool.size());
            vt::put(vt::J("PoolSize").i("requested", ctor == 0 ? -1 : requested).i("size", nw).i("maxsize", hw));
            if (nw > 1)
            {
                // at least one call on the pooled path: a pool without workers never returns from it (the watchdog reports the hang)
                outs[0].kind  = 1;
                outs[0].n     = std::max<int64_t>(outs[0].n, 40);
                outs[0].chunk = std::clamp<int64_t>(outs[0].chunk, 1, outs[0].n / 2);
            }
        }
        std::vector<std::thread> threads;
        for (int64_t c = 0; c < ncallers; ++c)
        {
            threads.emplace_back(
                [&, c]
                {
                    auto&      out = outs[static_cast<size_t>(c)];
                    std::mutex mutex;
                    // the decision which tasks throw is taken up-front
                    std::vector<char> throws(static_cast<size_t>(out.n) + 1U, 0);
                    vt::Rng           trng(out.tseed);
                    for (auto& t : throws)
                    {
                        t = static_cast<char>(trng.range(0, 999) < out.permille);
                    }
                    const auto body = [&](int64_t begin, int64_t end, size_t tnum)
                    {
                        const auto sb = clock.fetch_add(1);
                        NANO_VERIF_YIELD(31);
                        const auto se    = clock.fetch_add(1);
                        const auto threw = throws[static_cast<size_t>(begin)] != 0;
                        {
                            const std::scoped_lock lock(mutex);
                            out.recs.push_back(rec_t{begin, end, static_cast<int64_t>(tnum), sb, se});
                            out.nthrow += threw ? 1 : 0;
                        }
                        if (threw)
                        {
                            throw_any(begin);
                        }
                    };
                    try
                    {
                        if (out.kind == 0)
                        {
                            pool.map(
                                out.n, [&](int64_t index, size_t tnum) { body(index, index + 1, tnum); }, out.raise != 0);
                        }
                        else
                        {
                            pool.map(
                                out.n, out.chunk, [&](int64_t begin, int64_t end, size_t tnum) { body(begin, end, tnum); },
                                out.raise != 0);
                        }
                    }
                    catch (...)
                    {
                        out.outcome = 1;
                    }
                    out.ret = clock.fetch_add(1); // map() returned (or re-threw): every task of the call must have ended
                });
        }
        for (auto& thread : threads)
        {
            thread.join();
        }
    }
    g_case_started_ms.store(0);
    verif::set_sched(-1);

    for (auto& out : outs)
    {
        // projection: chunks sorted by begin; per worker id the execution intervals sorted by their begin stamp
        std::sort(out.recs.begin(), out.recs.end(), [](const rec_t& l, const rec_t& r) { return l.b < r.b || (l.b == r.b && l.sb < r.sb); });
        std::vector<int64_t> bs, es;
        int64_t              maxtnum = -1;
        for (const auto& r : out.recs)
        {
            bs.push_back(r.b);
            es.push_back(r.e);
            maxtnum = std::max(maxtnum, r.tnum);
        }
        auto bytnum = out.recs;
        std::sort(bytnum.begin(), bytnum.end(), [](const rec_t& l, const rec_t& r) { return l.tnum < r.tnum || (l.tnum == r.tnum && l.sb < r.sb); });
        std::vector<int64_t> tn, sb, se;
        for (const auto& r : bytnum)
        {
            tn.push_back(r.tnum);
            sb.push_back(r.sb);
            se.push_back(r.se);
        }
        vt::put(vt::J("BigMap").i("workers", nw).i("n", out.n).i("chunk", out.chunk).i("maxtnum", maxtnum).a("bs", bs).a("es", es).a(
            "tn", tn).a("sb", sb).a("se", se).b("raise", out.raise != 0).i("nthrow", out.nthrow).s("outcome", out.outcome == 0 ? "ok" : "rethrow").i("ret", out.ret));
    }
    g_record.store(true);
    verif::sink().store(&hook_sink);
}
} // namespace

int main(int argc, char* argv[])
{
    if (argc < 5)
    {
        std::fprintf(stderr, "usage: pool_driver <out.ndjson> <seed> <small-cases> <big-cases>\n");
        return 2;
    }
    vt::Trace::get().open(argv[1]);
    const auto seed   = static_cast<uint64_t>(std::atoll(argv[2]));
    const auto nsmall = std::atoll(argv[3]);
    const auto nbig   = std::atoll(argv[4]);

    verif::sink().store(&hook_sink);
    std::thread(watchdog, 60000).detach();

    vt::Rng rng(seed);
    for (int64_t i = 0; i < nsmall; ++i)
    {
        small_case(rng, i);
    }
    for (int64_t i = 0; i < 4 * nsmall; ++i)
    {
        race_case(rng, 100000 + i);
    }
    for (int64_t i = 0; i < nbig; ++i)
    {
        big_case(rng, nsmall + i);
    }
    // pool sizes chosen by the library: default constructed, clamped from below and from above
    for (int ctor = 0; ctor < 3; ++ctor)
    {
        big_case(rng, nsmall + nbig + ctor, ctor);
    }
    return 0;
}
