// C12 conformance driver: records calls of the splitters and samplers for evaluation of the set predicates by TLC.
//   splitter_driver <out.ndjson> <seed> <part> <parts> <seed-stride> <random-cases>
#include "trace.h"
#include <nano/core/sampling.h>
#include <nano/gboost/sampler.h>
#include <nano/splitter.h>

using namespace nano;

namespace
{
std::vector<int64_t> vec(const indices_t& x)
{
    return std::vector<int64_t>(x.begin(), x.end());
}

void split_case(const std::string& id, const indices_t& input, int64_t folds, int64_t seed, int64_t per)
{
    auto splitter = splitter_t::all().get(id);
    splitter->parameter("splitter::folds") = folds;
    splitter->parameter("splitter::seed")  = seed;
    if (id == "random")
    {
        splitter->parameter("splitter::random::train_per") = per;
    }
    const auto splits = splitter->split(input);
    const auto again  = splitter->split(input);
    const auto cloned = splitter->clone()->split(input);
    std::vector<std::vector<int64_t>> train, valid;
    for (const auto& [tr, vd] : splits)
    {
        train.push_back(vec(tr));
        valid.push_back(vec(vd));
    }
    vt::put(vt::J(id == "random" ? "Random" : "KFold")
                .a("input", vec(input))
                .i("folds", folds)
                .i("seed", seed)
                .i("per", per)
                .aa("train", train)
                .aa("valid", valid)
                .b("sameSeedSame", splits == again)
                .b("cloneSame", splits == cloned));
}

indices_t make_input(vt::Rng& rng, int64_t n, bool contiguous)
{
    indices_t input(n);
    int64_t   v = contiguous ? 0 : rng.range(0, 50);
    for (int64_t i = 0; i < n; ++i)
    {
        input(i) = v;
        v += contiguous ? 1 : rng.range(1, 9);
    }
    if (!contiguous)
    {
        // arbitrary order of distinct values
        auto gen = make_rng(static_cast<uint64_t>(rng.range(0, 1 << 20)));
        std::shuffle(input.begin(), input.end(), gen);
    }
    return input;
}
} // namespace

int main(int argc, char* argv[])
{
    if (argc < 7)
    {
        std::fprintf(stderr, "usage: splitter_driver <out.ndjson> <seed> <part> <parts> <seed-stride> <random-cases>\n");
        return 2;
    }
    vt::Trace::get().open(argv[1]);
    vt::Rng    rng(static_cast<uint64_t>(std::atoll(argv[2])));
    const auto part = std::atoll(argv[3]), parts = std::atoll(argv[4]), stride = std::atoll(argv[5]), nrand = std::atoll(argv[6]);

    const auto runseed = static_cast<int64_t>(std::atoll(argv[2]) / 1000); // the offset of the seed stride rotates with VERIF_SEED
    // exhaustive part: n in 2..40, folds in 2..min(n, 12), seeds of the parameter domain (with the given stride)
    int64_t icase = 0;
    for (int64_t n = 2; n <= 40; ++n)
    {
        const auto input = arange(0, n);
        for (int64_t folds = 2; folds <= std::min<int64_t>(n, 12); ++folds)
        {
            for (int64_t seed = (n * 7 + folds + runseed) % stride; seed <= 1024; seed += stride)
            {
                if ((icase++) % parts != part)
                {
                    continue;
                }
                split_case("k-fold", input, folds, seed, 0);
                split_case("random", input, folds, seed, std::vector<int64_t>{10, 25, 50, 75, 80, 90}[static_cast<size_t>((seed + n) % 6)]);
            }
            // all train percentages, coarse seed stride
            for (int64_t per = 10; per <= 90; ++per)
            {
                if ((icase++) % parts != part)
                {
                    continue;
                }
                split_case("random", input, std::min<int64_t>(folds, 3), (per * 37 + n) % 1025, per);
            }
        }
    }
    // random part: arbitrary (non-contiguous) index values, larger n, sampling, balls
    for (int64_t i = 0; i < nrand; ++i)
    {
        const auto n     = rng.coin(1, 5) ? rng.range(200, 5000) : rng.range(2, 120);
        const auto input = make_input(rng, n, false);
        const auto folds = rng.range(2, std::min<int64_t>(n, 12));
        split_case("k-fold", input, folds, rng.range(0, 1024), 0);
        split_case("random", input, rng.range(2, 12), rng.range(0, 1024), rng.range(10, 90));

        auto srng = make_rng(static_cast<uint64_t>(rng.range(0, 1 << 30)));
        const auto count = rng.coin(1, 6) ? (rng.coin() ? 0 : n) : rng.range(0, n);
        vt::put(vt::J("Sample").s("kind", "without").a("input", vec(input)).i("count", count).a("sel", vec(sample_without_replacement(input, count, srng))).a(
            "zero", std::vector<int64_t>{}));
        const auto count2 = rng.range(0, 2 * n);
        vt::put(vt::J("Sample").s("kind", "with").a("input", vec(input)).i("count", count2).a("sel", vec(sample_with_replacement(input, count2, srng))).a(
            "zero", std::vector<int64_t>{}));
        tensor1d_t           weights(n);
        std::vector<int64_t> zero;
        for (int64_t k = 0; k < n; ++k)
        {
            weights(k) = rng.coin(1, 3) ? 0.0 : rng.uniform(0.0, 5.0);
        }
        weights(rng.range(0, n - 1)) = 1.0;
        for (int64_t k = 0; k < n; ++k)
        {
            if (weights(k) == 0.0)
            {
                zero.push_back(input(k));
            }
        }
        vt::put(vt::J("Sample").s("kind", "weighted").a("input", vec(input)).i("count", count2).a(
            "sel", vec(sample_with_replacement(input, weights, count2, srng))).a("zero", zero));
        // the gradient-boosting sampler on top of these
        {
            const auto ratio = rng.uniform(0.1, 1.0);
            const auto expected = static_cast<int64_t>(ratio * static_cast<scalar_t>(n));
            tensor2d_t values(2, input.max() + 1);
            tensor4d_t grads(make_dims(input.max() + 1, 1, 1, 1));
            std::vector<int64_t> zl, zg;
            for (tensor_size_t s = 0; s <= input.max(); ++s)
            {
                values(0, s) = 1.0;
                values(1, s) = rng.coin(1, 3) ? 0.0 : rng.uniform(0.1, 2.0);
                grads(s)     = rng.coin(1, 3) ? 0.0 : rng.uniform(-2.0, 2.0);
            }
            values(1, input(0)) = 1.0;
            grads(input(0))     = 1.0;
            for (int64_t k = 0; k < n; ++k)
            {
                if (values(1, input(k)) == 0.0)
                {
                    zl.push_back(input(k));
                }
                if (grads(input(k)) == 0.0)
                {
                    zg.push_back(input(k));
                }
            }
            const auto sseed = static_cast<uint64_t>(rng.range(0, 1024));
            gboost::sampler_t s1(input, gboost_subsample::subsample, sseed, ratio), s2(input, gboost_subsample::bootstrap, sseed, ratio),
                s3(input, gboost_subsample::wei_loss_bootstrap, sseed, ratio), s4(input, gboost_subsample::wei_grad_bootstrap, sseed, ratio),
                s5(input, gboost_subsample::off, sseed, ratio);
            vt::put(vt::J("Sample").s("kind", "without").a("input", vec(input)).i("count", expected).a("sel", vec(s1.sample(values, grads))).a("zero", std::vector<int64_t>{}));
            vt::put(vt::J("Sample").s("kind", "with").a("input", vec(input)).i("count", expected).a("sel", vec(s2.sample(values, grads))).a("zero", std::vector<int64_t>{}));
            vt::put(vt::J("Sample").s("kind", "weighted").a("input", vec(input)).i("count", expected).a("sel", vec(s3.sample(values, grads))).a("zero", zl));
            vt::put(vt::J("Sample").s("kind", "weighted").a("input", vec(input)).i("count", expected).a("sel", vec(s4.sample(values, grads))).a("zero", zg));
            auto all = s5.sample(values, grads);
            std::sort(all.begin(), all.end());
            vt::put(vt::J("Sample").s("kind", "without").a("input", vec(input)).i("count", n).a("sel", vec(all)).a("zero", std::vector<int64_t>{}));
            // the sampler objects are stateful (generator, weight buffer) and are asked once per boosting round: further calls on the
            // SAME objects with other losses / gradients (other zero patterns: what had weight zero may have weight now and vice versa)
            for (int64_t call = 1; call <= 2; ++call)
            {
                zl.clear();
                zg.clear();
                for (tensor_size_t s = 0; s <= input.max(); ++s)
                {
                    // second call: mostly the complement of the first zero pattern; third call: a fresh one
                    const auto wasl = values(1, s) == 0.0, wasg = grads(s) == 0.0;
                    values(0, s)    = rng.uniform(0.0, 1.0);
                    values(1, s)    = (call == 1 ? (!wasl && rng.coin(4, 5)) : rng.coin(1, 2)) ? 0.0 : rng.uniform(0.1, 2.0);
                    grads(s)        = (call == 1 ? (!wasg && rng.coin(4, 5)) : rng.coin(1, 2)) ? 0.0 : rng.uniform(-2.0, 2.0);
                }
                values(1, input(call % n)) = 0.5;
                grads(input(call % n))     = -0.5;
                for (int64_t k = 0; k < n; ++k)
                {
                    if (values(1, input(k)) == 0.0)
                    {
                        zl.push_back(input(k));
                    }
                    if (grads(input(k)) == 0.0)
                    {
                        zg.push_back(input(k));
                    }
                }
                // (the records of the three samplers without weights are written for the inputs up to 300 indices only: the evaluation
                // of a record by TLC grows with the input, and the weighted ones are those with a buffer rewritten on every call)
                const auto s1sel = s1.sample(values, grads), s2sel = s2.sample(values, grads);
                if (n <= 300)
                {
                    vt::put(vt::J("Sample").s("kind", "without").a("input", vec(input)).i("count", expected).a("sel", vec(s1sel)).a("zero", std::vector<int64_t>{}).i("call", call));
                    vt::put(vt::J("Sample").s("kind", "with").a("input", vec(input)).i("count", expected).a("sel", vec(s2sel)).a("zero", std::vector<int64_t>{}).i("call", call));
                }
                vt::put(vt::J("Sample").s("kind", "weighted").a("input", vec(input)).i("count", expected).a("sel", vec(s3.sample(values, grads))).a("zero", zl).i("call", call));
                vt::put(vt::J("Sample").s("kind", "weighted").a("input", vec(input)).i("count", expected).a("sel", vec(s4.sample(values, grads))).a("zero", zg).i("call", call));
                auto again = s5.sample(values, grads);
                std::sort(again.begin(), again.end());
                if (n <= 300)
                {
                    vt::put(vt::J("Sample").s("kind", "without").a("input", vec(input)).i("count", n).a("sel", vec(again)).a("zero", std::vector<int64_t>{}).i("call", call));
                }
            }
        }
        // the overloads without a generator argument (they seed their own): the clauses that do not depend on the seed
        {
            vt::put(vt::J("Sample").s("kind", "without").a("input", vec(input)).i("count", count).a("sel", vec(sample_without_replacement(input, count))).a(
                "zero", std::vector<int64_t>{}).s("overload", "seedless"));
            vt::put(vt::J("Sample").s("kind", "with").a("input", vec(input)).i("count", count2).a("sel", vec(sample_with_replacement(input, count2))).a(
                "zero", std::vector<int64_t>{}).s("overload", "seedless"));
            vt::put(vt::J("Sample").s("kind", "weighted").a("input", vec(input)).i("count", count2).a("sel", vec(sample_with_replacement(input, weights, count2))).a(
                "zero", zero).s("overload", "seedless"));
        }
        // ball
        {
            const auto dim    = rng.range(1, 50);
            const auto radius = std::pow(10.0, rng.uniform(-6.0, 6.0));
            vector_t   x0(dim);
            for (int64_t k = 0; k < dim; ++k)
            {
                x0(k) = rng.uniform(-10.0, 10.0) * (rng.coin(1, 4) ? 1e3 : 1.0);
            }
            const auto x = sample_from_ball(x0, radius, srng);
            // up to the rounding of x0 + delta: |x0| eps per coordinate
            const auto slack = radius * 1e-12 + 4e-16 * x0.lpNorm<2>();
            vt::put(vt::J("Ball").i("dim", dim).b("dimOK", x.size() == dim).b("inside", (x - x0).lpNorm<2>() <= radius + slack));
            // the other three overloads: own generator; writing into a caller's buffer (a window of a larger one: nothing outside of
            // the window may be written, every element of the window is)
            const auto xs = sample_from_ball(x0, radius);
            vt::put(vt::J("Ball").i("dim", dim).b("dimOK", xs.size() == dim).b("inside", xs.all_finite() && (xs - x0).lpNorm<2>() <= radius + slack).s("overload", "seedless"));
            for (int variant = 0; variant < 2; ++variant)
            {
                const auto          guard = std::numeric_limits<double>::quiet_NaN();
                std::vector<double> buffer(static_cast<size_t>(dim) + 6U, guard);
                auto                window = map_tensor(buffer.data() + 3, dim);
                if (variant == 0)
                {
                    sample_from_ball(x0, radius, window, srng);
                }
                else
                {
                    sample_from_ball(x0, radius, window);
                }
                bool     guardOK = true, filled = true;
                vector_t xw(dim);
                for (int64_t k = 0; k < dim; ++k)
                {
                    xw(k)  = buffer[static_cast<size_t>(k) + 3U];
                    filled = filled && std::isfinite(xw(k));
                }
                for (size_t k = 0; k < 3U; ++k)
                {
                    guardOK = guardOK && std::isnan(buffer[k]) && std::isnan(buffer[buffer.size() - 1U - k]);
                }
                vt::put(vt::J("BallMap").i("dim", dim).b("seeded", variant == 0).b("filled", filled).b("guardOK", guardOK).b(
                    "inside", filled && (xw - x0).lpNorm<2>() <= radius + slack));
            }
        }
    }
    vt::put(vt::J("Ball").i("dim", 0).b("dimOK", true).b("inside", true));
    return 0;
}
