// C08 conformance driver: random data sources (all feature kinds / storage types, missing values) behind real dataset_t
// objects with random generator stacks; random drop/undrop/shuffle/unshuffle histories; after every operation all views are
// read back for a random sample list and recorded for re-computation by TLC (DatasetTrace.tla).
//   dataset_driver <out.ndjson> <seed> <cases>
#include "tabledata.h"
#include <nano/dataset.h>
#include <nano/generator/elemwise_identity.h>
#include <nano/generator/pairwise_product.h>

using namespace nano;

namespace
{
constexpr int64_t Nan = -2000000000;

int64_t lat(double x)
{
    if (std::isnan(x))
    {
        return Nan;
    }
    int64_t out = 0;
    if (!vt::to_lattice(x, 1.0, out))
    {
        vt::put(vt::J("Inexact").s("what", std::to_string(x)));
        return Nan + 1;
    }
    return out;
}

std::string json_list(const std::vector<int64_t>& v)
{
    std::string s = "[";
    for (size_t i = 0; i < v.size(); ++i)
    {
        s += (i ? "," : "") + std::to_string(v[i]);
    }
    return s + "]";
}

std::string json_lists(const std::vector<std::vector<int64_t>>& vv)
{
    std::string s = "[";
    for (size_t i = 0; i < vv.size(); ++i)
    {
        s += (i ? "," : "") + json_list(vv[i]);
    }
    return s + "]";
}

struct gen_feat_t
{
    std::string          kind;
    std::vector<int64_t> src;
    int64_t              classes{0}, width{1};
};

std::string kind_of(const feature_t& f)
{
    return f.is_sclass() ? "sclass" : f.is_mclass() ? "mclass" : f.is_scalar() ? "scalar" : "struct";
}

vt::column_t random_column(vt::Rng& rng, int64_t index, int64_t n, bool allow_missing, int64_t forced_kind = -1)
{
    const auto name = "f" + std::to_string(index);
    const auto kind = forced_kind >= 0 ? forced_kind : rng.range(0, 9);
    vt::column_t c;
    const auto scalar_types = std::vector<feature_type>{feature_type::int8,   feature_type::int16,  feature_type::int32,  feature_type::int64,
                                                        feature_type::uint8,  feature_type::uint16, feature_type::uint32, feature_type::uint64,
                                                        feature_type::float32, feature_type::float64};
    if (kind <= 1)
    {
        // class counts 1..300: mostly small, sometimes anywhere, sometimes at the limits of the storage types (uint8: 255 | 256 | 257)
        const auto classes = rng.coin(1, 12) ? rng.range(100, 300)
                           : rng.coin(1, 10) ? rng.pick(std::vector<int64_t>{127, 128, 129, 254, 255, 256, 257, 258})
                           : rng.coin(1, 10) ? rng.range(7, 99) : rng.range(1, 6);
        c                  = vt::make_sclass_column(name, classes, n);
        for (int64_t s = 0; s < n; ++s)
        {
            c.flat[static_cast<size_t>(s)] = static_cast<double>(rng.coin(1, 4) ? classes - 1 - rng.range(0, std::min<int64_t>(2, classes - 1)) : rng.range(0, classes - 1));
        }
    }
    else if (kind == 2)
    {
        const auto classes = rng.coin(1, 12) ? rng.range(20, 60) : rng.range(1, 5);
        c                  = vt::make_mclass_column(name, classes, n);
        for (auto& v : c.flat)
        {
            v = static_cast<double>(rng.range(0, 1));
        }
    }
    else if (kind <= 7)
    {
        const auto type = rng.pick(scalar_types);
        c               = vt::make_scalar_column(name, type, n);
        const auto is_unsigned = type == feature_type::uint8 || type == feature_type::uint16 || type == feature_type::uint32 || type == feature_type::uint64;
        // values near the limits of the storage type as well (as far as 32-bit records can hold them)
        std::vector<int64_t> limits{0};
        switch (type)
        {
        case feature_type::int8: limits = {-128, -127, 126, 127}; break;
        case feature_type::uint8: limits = {0, 1, 254, 255}; break;
        case feature_type::int16: limits = {-32768, -32767, 32766, 32767}; break;
        // (wider types: bounded by 46340 so that the pairwise products stay inside TLC's 32-bit integers)
        case feature_type::uint16: limits = {0, 32768, 46340}; break;
        default: limits = {-46340, -32769, 32768, 46340}; break;
        }
        if (is_unsigned && type != feature_type::uint8 && type != feature_type::uint16)
        {
            limits = {0, 32768, 46340};
        }
        const auto extreme = rng.coin(1, 4);
        for (auto& v : c.flat)
        {
            v = static_cast<double>((extreme && rng.coin()) ? rng.pick(limits) : rng.range(is_unsigned ? 0 : -100, 100));
        }
    }
    else
    {
        const auto type = rng.pick(scalar_types);
        const auto dims = make_dims(rng.range(1, 3), rng.range(1, 3), rng.range(1, 2));
        if (::nano::size(dims) == 1)
        {
            return random_column(rng, index, n, allow_missing, 3);
        }
        c = vt::make_struct_column(name, type, dims, n);
        const auto is_unsigned = type == feature_type::uint8 || type == feature_type::uint16 || type == feature_type::uint32 || type == feature_type::uint64;
        for (auto& v : c.flat)
        {
            v = static_cast<double>(rng.range(is_unsigned ? 0 : -50, 50));
        }
    }
    if (allow_missing)
    {
        const auto density = rng.pick(std::vector<int>{0, 1, 3, 8, 10});
        for (auto& m : c.missing)
        {
            m = static_cast<char>(rng.range(0, 9) < density);
        }
    }
    return c;
}

std::vector<int64_t> stored_value(const vt::column_t& c, int64_t s)
{
    std::vector<int64_t> v;
    if (c.missing[static_cast<size_t>(s)] != 0)
    {
        return v;
    }
    for (int64_t k = 0; k < c.width; ++k)
    {
        v.push_back(static_cast<int64_t>(c.at(s, k)));
    }
    return v;
}

indices_t random_samples(vt::Rng& rng, int64_t n)
{
    const auto mode = rng.range(0, 4);
    indices_t  samples;
    if (mode == 0)
    {
        samples = arange(0, std::min<int64_t>(n, 24));
    }
    else if (mode == 1)
    {
        samples = arange(std::max<int64_t>(0, n - 16), n);
        std::reverse(samples.begin(), samples.end());
    }
    else
    {
        samples.resize(rng.range(1, 20));
        for (auto& s : samples)
        {
            s = rng.coin(1, 5) ? n - 1 : rng.range(0, n - 1);
        }
    }
    return samples;
}

void dataset_case(vt::Rng& rng, int64_t icase)
{
    const auto n     = rng.pick(std::vector<int64_t>{1, 2, 3, 7, 8, 9, 15, 16, 17, 31, 33, 64, 100, 200, rng.range(1, 200)});
    const auto ncols = rng.range(1, 12);
    const auto has_target = rng.coin(3, 4);
    const auto target     = has_target ? static_cast<size_t>(rng.range(0, ncols - 1)) : static_cast<size_t>(ncols + 100);

    std::vector<vt::column_t> columns;
    for (int64_t i = 0; i < ncols; ++i)
    {
        // NB: targets may not have missing values (the data source rejects that at load time)
        columns.push_back(random_column(rng, i, n, !(has_target && static_cast<size_t>(i) == target)));
    }
    vt::table_datasource_t source(n, columns, has_target ? target : columns.size() + 1U);
    source.load();

    dataset_t dataset(source, static_cast<size_t>(rng.range(1, 16)));
    // generator stack: random order of the identity generators, optionally the pairwise product and a restricted generator
    std::vector<int> order{0, 1, 2, 3, 4, 5};
    for (size_t i = order.size(); i > 1; --i)
    {
        std::swap(order[i - 1], order[static_cast<size_t>(rng.range(0, static_cast<int64_t>(i) - 1))]);
    }
    const auto ninputs = source.features();
    for (const auto g : order)
    {
        if (g <= 3 && rng.coin(1, 8))
        {
            continue;
        }
        switch (g)
        {
        case 0: dataset.add<sclass_identity_generator_t>(); break;
        case 1: dataset.add<mclass_identity_generator_t>(); break;
        case 2: dataset.add<scalar_identity_generator_t>(); break;
        case 3: dataset.add<struct_identity_generator_t>(); break;
        case 4:
            if (rng.coin(1, 3))
            {
                dataset.add<pairwise_product_generator_t>();
            }
            break;
        default:
            if (rng.coin(1, 3) && ninputs > 0)
            {
                // a generator restricted to a subset of the input features
                indices_t subset(rng.range(1, std::min<int64_t>(ninputs, 4)));
                auto      all = arange(0, ninputs);
                for (tensor_size_t k = 0; k < subset.size(); ++k)
                {
                    subset(k) = all(rng.range(0, ninputs - 1));
                }
                std::sort(subset.begin(), subset.end());
                indices_t unique(static_cast<tensor_size_t>(std::unique(subset.begin(), subset.end()) - subset.begin()));
                std::copy(subset.begin(), subset.begin() + unique.size(), unique.begin());
                dataset.add<scalar_identity_generator_t>(unique);
            }
            break;
        }
    }
    if (dataset.features() == 0)
    {
        return;
    }

    // generated features as described by the dataset itself
    std::vector<gen_feat_t> feats;
    bool                    descOK = true;
    const auto column_of = [&](const std::string& name) -> int64_t { return name.size() > 1 && name[0] == 'f' ? std::atoll(name.c_str() + 1) : -1; };
    for (tensor_size_t k = 0; k < dataset.features(); ++k)
    {
        const auto f = dataset.feature(k);
        gen_feat_t g;
        if (f.name().rfind("product(", 0) == 0)
        {
            const auto inner = f.name().substr(8, f.name().size() - 9);
            const auto comma = inner.find(',');
            g.kind           = "product";
            g.src            = {column_of(inner.substr(0, comma)), column_of(inner.substr(comma + 1))};
            descOK           = descOK && f.is_scalar();
            for (const auto c : g.src)
            {
                descOK = descOK && c >= 0 && c < ncols && columns[static_cast<size_t>(c)].feature.is_scalar();
            }
        }
        else
        {
            g.kind = kind_of(f);
            g.src  = {column_of(f.name())};
            descOK = descOK && g.src[0] >= 0 && g.src[0] < ncols && f == columns[static_cast<size_t>(std::max<int64_t>(0, g.src[0]))].feature;
        }
        g.classes = f.classes();
        g.width   = (f.is_sclass() || f.is_mclass()) ? 1 : ::nano::size(f.dims());
        feats.push_back(g);
    }
    if (!descOK)
    {
        vt::put(vt::J("Reset").i("case", icase).i("n", n).raw("stored", "[]").raw("feats", "[]").raw("target", "[]").i("nfeatures", dataset.features()).i(
            "columns", dataset.columns()).raw("col2feat", "[]").b("descOK", false));
        return;
    }

    // Reset record
    {
        std::string stored = "[";
        for (size_t c = 0; c < columns.size(); ++c)
        {
            std::vector<std::vector<int64_t>> vals;
            for (int64_t s = 0; s < n; ++s)
            {
                vals.push_back(stored_value(columns[c], s));
            }
            stored += (c ? "," : "") + json_lists(vals);
        }
        stored += "]";
        std::string fs = "[";
        for (size_t g = 0; g < feats.size(); ++g)
        {
            fs += std::string(g ? "," : "") + "{\"kind\":\"" + feats[g].kind + "\",\"src\":" + json_list(feats[g].src) + ",\"classes\":" +
                  std::to_string(feats[g].classes) + ",\"width\":" + std::to_string(feats[g].width) + "}";
        }
        fs += "]";
        std::string tg = "[]";
        if (has_target)
        {
            const auto& tf = columns[target].feature;
            tg = "[\"" + kind_of(tf) + "\"," + std::to_string(target) + "," + std::to_string(tf.classes()) + "," +
                 std::to_string((tf.is_sclass() || tf.is_mclass()) ? 1 : ::nano::size(tf.dims())) + "]";
        }
        std::vector<int64_t> col2feat;
        for (tensor_size_t c = 0; c < dataset.columns(); ++c)
        {
            col2feat.push_back(dataset.column2feature(c));
        }
        vt::put(vt::J("Reset").i("case", icase).i("n", n).raw("stored", stored).raw("feats", fs).raw("target", tg).i("nfeatures", dataset.features()).i(
            "columns", dataset.columns()).a("col2feat", col2feat).b("descOK", true));
    }

    const auto record_views = [&]()
    {
        const auto samples = random_samples(rng, n);
        tensor2d_t fbuffer;
        const auto flat = dataset.flatten(samples, fbuffer);
        std::vector<std::vector<int64_t>> rows;
        for (tensor_size_t i = 0; i < samples.size(); ++i)
        {
            std::vector<int64_t> row;
            for (tensor_size_t c = 0; c < dataset.columns(); ++c)
            {
                row.push_back(lat(flat(i, c)));
            }
            rows.push_back(row);
        }
        std::string sel = "[";
        for (tensor_size_t k = 0; k < dataset.features(); ++k)
        {
            const auto&                       g = feats[static_cast<size_t>(k)];
            std::vector<std::vector<int64_t>> vals;
            if (g.kind == "sclass")
            {
                sclass_mem_t buffer;
                const auto   v = dataset.select(samples, k, buffer);
                for (tensor_size_t i = 0; i < samples.size(); ++i)
                {
                    vals.push_back({static_cast<int64_t>(v(i))});
                }
            }
            else if (g.kind == "mclass")
            {
                mclass_mem_t buffer;
                const auto   v = dataset.select(samples, k, buffer);
                for (tensor_size_t i = 0; i < samples.size(); ++i)
                {
                    std::vector<int64_t> bits;
                    for (tensor_size_t c = 0; c < v.size<1>(); ++c)
                    {
                        bits.push_back(v(i, c));
                    }
                    vals.push_back(bits);
                }
            }
            else if (g.kind == "struct")
            {
                struct_mem_t buffer;
                const auto   v = dataset.select(samples, k, buffer);
                for (tensor_size_t i = 0; i < samples.size(); ++i)
                {
                    std::vector<int64_t> xs;
                    const auto           t = v.tensor(i);
                    for (tensor_size_t c = 0; c < t.size(); ++c)
                    {
                        xs.push_back(lat(t(c)));
                    }
                    vals.push_back(xs);
                }
            }
            else
            {
                scalar_mem_t buffer;
                const auto   v = dataset.select(samples, k, buffer);
                for (tensor_size_t i = 0; i < samples.size(); ++i)
                {
                    vals.push_back({lat(v(i))});
                }
            }
            sel += (k ? "," : "") + json_lists(vals);
        }
        sel += "]";
        vt::put(vt::J("Views").a("samples", std::vector<int64_t>(samples.begin(), samples.end())).aa("flat", rows).raw("sel", sel));

        if (has_target && rng.coin(1, 2))
        {
            tensor4d_t tbuffer;
            const auto targets = dataset.targets(samples, tbuffer);
            std::vector<std::vector<int64_t>> trows, tsel;
            for (tensor_size_t i = 0; i < samples.size(); ++i)
            {
                std::vector<int64_t> row;
                const auto           t = targets.tensor(i);
                for (tensor_size_t c = 0; c < t.size(); ++c)
                {
                    row.push_back(lat(t(c)));
                }
                trows.push_back(row);
            }
            const auto& tf = columns[target].feature;
            if (tf.is_sclass())
            {
                sclass_mem_t buffer;
                const auto   v = dataset.select(samples, buffer);
                for (tensor_size_t i = 0; i < samples.size(); ++i)
                {
                    tsel.push_back({static_cast<int64_t>(v(i))});
                }
            }
            else if (tf.is_mclass())
            {
                mclass_mem_t buffer;
                const auto   v = dataset.select(samples, buffer);
                for (tensor_size_t i = 0; i < samples.size(); ++i)
                {
                    std::vector<int64_t> bits;
                    for (tensor_size_t c = 0; c < v.size<1>(); ++c)
                    {
                        bits.push_back(v(i, c));
                    }
                    tsel.push_back(bits);
                }
            }
            else if (tf.is_scalar())
            {
                scalar_mem_t buffer;
                const auto   v = dataset.select(samples, buffer);
                for (tensor_size_t i = 0; i < samples.size(); ++i)
                {
                    tsel.push_back({lat(v(i))});
                }
            }
            else
            {
                struct_mem_t buffer;
                const auto   v = dataset.select(samples, buffer);
                for (tensor_size_t i = 0; i < samples.size(); ++i)
                {
                    std::vector<int64_t> xs;
                    const auto           t = v.tensor(i);
                    for (tensor_size_t c = 0; c < t.size(); ++c)
                    {
                        xs.push_back(lat(t(c)));
                    }
                    tsel.push_back(xs);
                }
            }
            vt::put(vt::J("Targets").a("samples", std::vector<int64_t>(samples.begin(), samples.end())).aa("rows", trows).aa("sel", tsel));
        }
    };

    const auto bad_index = [&]()
    {
        const auto index = rng.pick(std::vector<int64_t>{-1, n, n + 1, n + 7});
        auto       samples = random_samples(rng, n);
        samples(rng.range(0, samples.size() - 1)) = index;
        bool threw = false;
        try
        {
            switch (rng.range(0, 2))
            {
            case 0:
            {
                tensor2d_t buffer;
                (void)dataset.flatten(samples, buffer);
                break;
            }
            case 1:
            {
                const auto k = rng.range(0, dataset.features() - 1);
                const auto& g = feats[static_cast<size_t>(k)];
                if (g.kind == "sclass")
                {
                    sclass_mem_t buffer;
                    (void)dataset.select(samples, k, buffer);
                }
                else if (g.kind == "mclass")
                {
                    mclass_mem_t buffer;
                    (void)dataset.select(samples, k, buffer);
                }
                else if (g.kind == "struct")
                {
                    struct_mem_t buffer;
                    (void)dataset.select(samples, k, buffer);
                }
                else
                {
                    scalar_mem_t buffer;
                    (void)dataset.select(samples, k, buffer);
                }
                break;
            }
            default:
            {
                if (has_target)
                {
                    tensor4d_t buffer;
                    (void)dataset.targets(samples, buffer);
                }
                else
                {
                    tensor2d_t buffer;
                    (void)dataset.flatten(samples, buffer);
                }
                break;
            }
            }
        }
        catch (const std::exception&)
        {
            threw = true;
        }
        vt::put(vt::J("Bad").s("what", "sample").i("index", index).b("threw", threw));
        // feature indices
        const auto findex = rng.pick(std::vector<int64_t>{-1, dataset.features(), dataset.features() + 3});
        threw             = false;
        try
        {
            const auto ok_samples = random_samples(rng, n);
            switch (rng.range(0, 3))
            {
            case 0: dataset.drop(findex); break;
            case 1: dataset.shuffle(findex); break;
            case 2: (void)dataset.feature(findex); break;
            default:
            {
                scalar_mem_t buffer;
                (void)dataset.select(ok_samples, findex, buffer);
                break;
            }
            }
        }
        catch (const std::exception&)
        {
            threw = true;
        }
        vt::put(vt::J("Bad").s("what", "feature").i("index", findex).b("threw", threw));
    };

    record_views();
    const auto nops = rng.range(0, 8);
    for (int64_t i = 0; i < nops; ++i)
    {
        const auto f  = rng.range(0, dataset.features() - 1);
        const auto op = rng.range(0, 9);
        if (op <= 3)
        {
            dataset.drop(f);
            vt::put(vt::J("Op").s("op", "drop").i("f", f));
        }
        else if (op <= 7)
        {
            dataset.shuffle(f);
            const auto perm = dataset.shuffled(f, arange(0, n));
            vt::put(vt::J("Op").s("op", "shuffle").i("f", f).a("perm", std::vector<int64_t>(perm.begin(), perm.end())));
            const auto samples = random_samples(rng, n);
            const auto out     = dataset.shuffled(f, samples);
            vt::put(vt::J("Shuffled").i("f", f).a("samples", std::vector<int64_t>(samples.begin(), samples.end())).a(
                "out", std::vector<int64_t>(out.begin(), out.end())));
        }
        else if (op == 8)
        {
            dataset.undrop();
            vt::put(vt::J("Op").s("op", "undrop"));
        }
        else
        {
            dataset.unshuffle();
            vt::put(vt::J("Op").s("op", "unshuffle"));
        }
        record_views();
        if (rng.coin(1, 3))
        {
            bad_index();
        }
    }
    bad_index();
}
} // namespace

int main(int argc, char* argv[])
{
    if (argc < 4)
    {
        std::fprintf(stderr, "usage: dataset_driver <out.ndjson> <seed> <cases>\n");
        return 2;
    }
    vt::Trace::get().open(argv[1]);
    vt::Rng    rng(static_cast<uint64_t>(std::atoll(argv[2])));
    const auto cases = std::atoll(argv[3]);
    for (int64_t i = 0; i < cases; ++i)
    {
        try
        {
            dataset_case(rng, i);
        }
        catch (const std::exception& e)
        {
            vt::put(vt::J("Abort").s("why", e.what()).i("case", i));
        }
    }
    vt::put(vt::J("Reset").i("case", -1).i("n", 0).raw("stored", "[]").raw("feats", "[]").raw("target", "[]").i("nfeatures", 0).i("columns", 0).raw(
        "col2feat", "[]").b("descOK", true));
    return 0;
}
