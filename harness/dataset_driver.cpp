// C08 conformance driver: random data sources (all feature kinds / storage types, missing values) behind real dataset_t
// objects with random generator stacks; random drop/undrop/shuffle/unshuffle histories; after every operation all views are
// read back for a random sample list and recorded for re-computation by TLC (DatasetTrace.tla).
// Generators: the four identity generators (all features / a subset), the pairwise product (all pairs / pairs of a subset / two lists).
// Views: direct calls with fresh or re-used buffers (also for no sample at all), the loops of select_iterator_t (compared with the
// direct calls), invalid sample / feature indices through every entry point.
//   dataset_driver <out.ndjson> <seed> <cases>
#include "tabledata.h"
#include <algorithm>
#include <map>
#include <mutex>
#include <nano/dataset.h>
#include <nano/dataset/iterator.h>
#include <nano/generator/elemwise_identity.h>
#include <nano/generator/pairwise_product.h>
#include <set>

using namespace nano;

namespace
{
constexpr int64_t Nan = -2000000000;

int64_t lat(double x)
{
    if (std::isnan(x))
    {
        return Nan;
    }
    int64_t out = 0;
    if (!vt::to_lattice(x, 1.0, out))
    {
        vt::put(vt::J("Inexact").s("what", std::to_string(x)));
        return Nan + 1;
    }
    return out;
}

std::string json_list(const std::vector<int64_t>& v)
{
    std::string s = "[";
    for (size_t i = 0; i < v.size(); ++i)
    {
        s += (i ? "," : "") + std::to_string(v[i]);
    }
    return s + "]";
}

std::string json_lists(const std::vector<std::vector<int64_t>>& vv)
{
    std::string s = "[";
    for (size_t i = 0; i < vv.size(); ++i)
    {
        s += (i ? "," : "") + json_list(vv[i]);
    }
    return s + "]";
}

struct gen_feat_t
{
    std::string          kind;
    std::vector<int64_t> src;
    int64_t              classes{0}, width{1};
};

std::string kind_of(const feature_t& f)
{
    return f.is_sclass() ? "sclass" : f.is_mclass() ? "mclass" : f.is_scalar() ? "scalar" : "struct";
}

vt::column_t random_column(vt::Rng& rng, int64_t index, int64_t n, bool allow_missing, int64_t forced_kind = -1)
{
    const auto name = "f" + std::to_string(index);
    const auto kind = forced_kind >= 0 ? forced_kind : rng.range(0, 9);
    vt::column_t c;
    const auto scalar_types = std::vector<feature_type>{feature_type::int8,   feature_type::int16,  feature_type::int32,  feature_type::int64,
                                                        feature_type::uint8,  feature_type::uint16, feature_type::uint32, feature_type::uint64,
                                                        feature_type::float32, feature_type::float64};
    if (kind <= 1)
    {
        // class counts 1..300: mostly small, sometimes anywhere, sometimes at the limits of the storage types (uint8: 255 | 256 | 257)
        const auto classes = rng.coin(1, 12) ? rng.range(100, 300)
                           : rng.coin(1, 10) ? rng.pick(std::vector<int64_t>{127, 128, 129, 254, 255, 256, 257, 258})
                           : rng.coin(1, 10) ? rng.range(7, 99) : rng.range(1, 6);
        c                  = vt::make_sclass_column(name, classes, n);
        for (int64_t s = 0; s < n; ++s)
        {
            c.flat[static_cast<size_t>(s)] = static_cast<double>(rng.coin(1, 4) ? classes - 1 - rng.range(0, std::min<int64_t>(2, classes - 1)) : rng.range(0, classes - 1));
        }
    }
    else if (kind == 2)
    {
        const auto classes = rng.coin(1, 12) ? rng.range(20, 60) : rng.range(1, 5);
        c                  = vt::make_mclass_column(name, classes, n);
        for (auto& v : c.flat)
        {
            v = static_cast<double>(rng.range(0, 1));
        }
    }
    else if (kind <= 7)
    {
        const auto type = rng.pick(scalar_types);
        c               = vt::make_scalar_column(name, type, n);
        const auto is_unsigned = type == feature_type::uint8 || type == feature_type::uint16 || type == feature_type::uint32 || type == feature_type::uint64;
        // values near the limits of the storage type as well (as far as 32-bit records can hold them)
        std::vector<int64_t> limits{0};
        switch (type)
        {
        case feature_type::int8: limits = {-128, -127, 126, 127}; break;
        case feature_type::uint8: limits = {0, 1, 254, 255}; break;
        case feature_type::int16: limits = {-32768, -32767, 32766, 32767}; break;
        // (wider types: bounded by 46340 so that the pairwise products stay inside TLC's 32-bit integers)
        case feature_type::uint16: limits = {0, 32768, 46340}; break;
        default: limits = {-46340, -32769, 32768, 46340}; break;
        }
        if (is_unsigned && type != feature_type::uint8 && type != feature_type::uint16)
        {
            limits = {0, 32768, 46340};
        }
        const auto extreme = rng.coin(1, 4);
        for (auto& v : c.flat)
        {
            v = static_cast<double>((extreme && rng.coin()) ? rng.pick(limits) : rng.range(is_unsigned ? 0 : -100, 100));
        }
    }
    else
    {
        const auto type = rng.pick(scalar_types);
        const auto dims = make_dims(rng.range(1, 3), rng.range(1, 3), rng.range(1, 2));
        if (::nano::size(dims) == 1)
        {
            return random_column(rng, index, n, allow_missing, 3);
        }
        c = vt::make_struct_column(name, type, dims, n);
        const auto is_unsigned = type == feature_type::uint8 || type == feature_type::uint16 || type == feature_type::uint32 || type == feature_type::uint64;
        for (auto& v : c.flat)
        {
            v = static_cast<double>(rng.range(is_unsigned ? 0 : -50, 50));
        }
    }
    if (allow_missing)
    {
        const auto density = rng.pick(std::vector<int>{0, 1, 3, 8, 10});
        for (auto& m : c.missing)
        {
            m = static_cast<char>(rng.range(0, 9) < density);
        }
    }
    return c;
}

std::vector<int64_t> stored_value(const vt::column_t& c, int64_t s)
{
    std::vector<int64_t> v;
    if (c.missing[static_cast<size_t>(s)] != 0)
    {
        return v;
    }
    for (int64_t k = 0; k < c.width; ++k)
    {
        v.push_back(static_cast<int64_t>(c.at(s, k)));
    }
    return v;
}

indices_t random_samples(vt::Rng& rng, int64_t n, bool allow_empty = false)
{
    if (allow_empty && rng.coin(1, 12))
    {
        return indices_t{}; // no sample at all: the views are empty
    }
    const auto mode = rng.range(0, 4);
    indices_t  samples;
    if (mode == 0)
    {
        samples = arange(0, std::min<int64_t>(n, 24));
    }
    else if (mode == 1)
    {
        samples = arange(std::max<int64_t>(0, n - 16), n);
        std::reverse(samples.begin(), samples.end());
    }
    else
    {
        samples.resize(rng.range(1, 20));
        for (auto& s : samples)
        {
            s = rng.coin(1, 5) ? n - 1 : rng.range(0, n - 1);
        }
    }
    return samples;
}

// a feature view as (dims, values): what a callback of select_iterator_t receives is compared with the direct select() call
struct view_t
{
    std::vector<int64_t> dims;
    std::vector<double>  values;
};

template <class tmap>
view_t copy_view(const tmap& map)
{
    view_t v;
    for (const auto d : map.dims())
    {
        v.dims.push_back(d);
    }
    v.values.reserve(static_cast<size_t>(map.size()));
    for (tensor_size_t i = 0; i < map.size(); ++i)
    {
        v.values.push_back(static_cast<double>(map(i)));
    }
    return v;
}

bool same_view(const view_t& a, const view_t& b)
{
    if (a.dims != b.dims || a.values.size() != b.values.size())
    {
        return false;
    }
    for (size_t i = 0; i < a.values.size(); ++i)
    {
        // exact equality, a missing value (NaN) only equals a missing value
        if (!(a.values[i] == b.values[i] || (std::isnan(a.values[i]) && std::isnan(b.values[i]))))
        {
            return false;
        }
    }
    return true;
}

// 1..maxsize distinct indices of 0..count-1 in random order
indices_t random_subset(vt::Rng& rng, int64_t count, int64_t maxsize)
{
    std::vector<tensor_size_t> all;
    for (int64_t i = 0; i < count; ++i)
    {
        all.push_back(i);
    }
    for (size_t i = all.size(); i > 1; --i)
    {
        std::swap(all[i - 1], all[static_cast<size_t>(rng.range(0, static_cast<int64_t>(i) - 1))]);
    }
    indices_t subset(rng.range(1, std::min(count, maxsize)));
    std::copy(all.begin(), all.begin() + subset.size(), subset.begin());
    return subset;
}

// buffers kept across the calls of one case: the views may not depend on what a buffer held before (a view of a shorter sample
// list maps a prefix of the larger buffer left by a previous call)
struct buffers_t
{
    tensor2d_t   flat;
    tensor4d_t   targets;
    sclass_mem_t sclass, tsclass;
    mclass_mem_t mclass, tmclass;
    scalar_mem_t scalar, tscalar;
    struct_mem_t structured, tstructured;
};

void dataset_case(vt::Rng& rng, int64_t icase)
{
    const auto n     = rng.pick(std::vector<int64_t>{1, 2, 3, 7, 8, 9, 15, 16, 17, 31, 33, 64, 100, 200, rng.range(1, 200)});
    const auto ncols = rng.range(1, 12);
    const auto has_target = rng.coin(3, 4);
    const auto target     = has_target ? static_cast<size_t>(rng.range(0, ncols - 1)) : static_cast<size_t>(ncols + 100);

    std::vector<vt::column_t> columns;
    for (int64_t i = 0; i < ncols; ++i)
    {
        // NB: targets may not have missing values (the data source rejects that at load time)
        columns.push_back(random_column(rng, i, n, !(has_target && static_cast<size_t>(i) == target)));
    }
    vt::table_datasource_t source(n, columns, has_target ? target : columns.size() + 1U);
    source.load();

    dataset_t dataset(source, static_cast<size_t>(rng.range(1, 16)));
    // generator stack: random order of the identity generators, optionally the pairwise product and a restricted generator
    std::vector<int> order{0, 1, 2, 3, 4, 5};
    for (size_t i = order.size(); i > 1; --i)
    {
        std::swap(order[i - 1], order[static_cast<size_t>(rng.range(0, static_cast<int64_t>(i) - 1))]);
    }
    const auto ninputs = source.features();
    // what the stack has to generate: identity generators "use the given features, if of the appropriate type" (all input features
    // when no subset is given), the pairwise product the pairs of the given scalar features
    std::vector<std::pair<std::string, int64_t>> expected_identity;
    std::set<std::pair<int64_t, int64_t>>        expected_products;
    const auto input_kind = [&](tensor_size_t i) { return kind_of(columns[source.input_column(i)].feature); };
    const auto input_col  = [&](tensor_size_t i) { return static_cast<int64_t>(source.input_column(i)); };
    const auto expect_identity = [&](const std::string& kind, const indices_t& subset)
    {
        const auto all = arange(0, ninputs);
        for (const auto i : (subset.size() > 0 ? subset : all))
        {
            if (input_kind(i) == kind)
            {
                expected_identity.emplace_back(kind, input_col(i));
            }
        }
    };
    const auto expect_products = [&](const indices_t& subset1, const indices_t& subset2)
    {
        const auto all = arange(0, ninputs);
        for (const auto i1 : (subset1.size() > 0 ? subset1 : all))
        {
            for (const auto i2 : (subset2.size() > 0 ? subset2 : all))
            {
                if (input_kind(i1) == "scalar" && input_kind(i2) == "scalar")
                {
                    expected_products.emplace(std::min(input_col(i1), input_col(i2)), std::max(input_col(i1), input_col(i2)));
                }
            }
        }
    };
    for (const auto g : order)
    {
        if (g <= 3 && rng.coin(1, 8))
        {
            continue;
        }
        switch (g)
        {
        case 0: dataset.add<sclass_identity_generator_t>(); expect_identity("sclass", indices_t{}); break;
        case 1: dataset.add<mclass_identity_generator_t>(); expect_identity("mclass", indices_t{}); break;
        case 2: dataset.add<scalar_identity_generator_t>(); expect_identity("scalar", indices_t{}); break;
        case 3: dataset.add<struct_identity_generator_t>(); expect_identity("struct", indices_t{}); break;
        case 4:
            if (rng.coin(1, 3))
            {
                // all pairs | the pairs of the given features | the given pairs of features
                const auto mode = ninputs > 0 ? rng.range(0, 2) : 0;
                if (mode == 0)
                {
                    dataset.add<pairwise_product_generator_t>();
                    expect_products(indices_t{}, indices_t{});
                }
                else if (mode == 1)
                {
                    const auto subset = random_subset(rng, ninputs, 6);
                    dataset.add<pairwise_product_generator_t>(subset);
                    expect_products(subset, subset);
                }
                else
                {
                    // any two lists (overlapping or not, any order); a pair of features appears once, in either order
                    const auto subset1 = random_subset(rng, ninputs, 5), subset2 = random_subset(rng, ninputs, 5);
                    dataset.add<pairwise_product_generator_t>(subset1, subset2);
                    expect_products(subset1, subset2);
                }
            }
            break;
        default:
            if (rng.coin(1, 3) && ninputs > 0)
            {
                // a generator restricted to a subset of the input features (any order)
                const auto subset = random_subset(rng, ninputs, 4);
                switch (rng.range(0, 5))
                {
                case 0: dataset.add<sclass_identity_generator_t>(subset); expect_identity("sclass", subset); break;
                case 1: dataset.add<mclass_identity_generator_t>(subset); expect_identity("mclass", subset); break;
                case 2: dataset.add<struct_identity_generator_t>(subset); expect_identity("struct", subset); break;
                default: dataset.add<scalar_identity_generator_t>(subset); expect_identity("scalar", subset); break;
                }
            }
            break;
        }
    }
    if (dataset.features() == 0)
    {
        if (!expected_identity.empty() || !expected_products.empty())
        {
            vt::put(vt::J("Reset").i("case", icase).i("n", n).raw("stored", "[]").raw("feats", "[]").raw("target", "[]").i("nfeatures", 0).i(
                "columns", dataset.columns()).raw("col2feat", "[]").b("descOK", true).b("stackOK", false));
        }
        return;
    }

    // generated features as described by the dataset itself
    std::vector<gen_feat_t> feats;
    bool                    descOK = true;
    const auto column_of = [&](const std::string& name) -> int64_t { return name.size() > 1 && name[0] == 'f' ? std::atoll(name.c_str() + 1) : -1; };
    for (tensor_size_t k = 0; k < dataset.features(); ++k)
    {
        const auto f = dataset.feature(k);
        gen_feat_t g;
        if (f.name().rfind("product(", 0) == 0)
        {
            const auto inner = f.name().substr(8, f.name().size() - 9);
            const auto comma = inner.find(',');
            g.kind           = "product";
            g.src            = {column_of(inner.substr(0, comma)), column_of(inner.substr(comma + 1))};
            descOK           = descOK && f.is_scalar();
            for (const auto c : g.src)
            {
                descOK = descOK && c >= 0 && c < ncols && columns[static_cast<size_t>(c)].feature.is_scalar();
            }
        }
        else
        {
            g.kind = kind_of(f);
            g.src  = {column_of(f.name())};
            descOK = descOK && g.src[0] >= 0 && g.src[0] < ncols && f == columns[static_cast<size_t>(std::max<int64_t>(0, g.src[0]))].feature;
        }
        g.classes = f.classes();
        g.width   = (f.is_sclass() || f.is_mclass()) ? 1 : ::nano::size(f.dims());
        feats.push_back(g);
    }
    if (!descOK)
    {
        vt::put(vt::J("Reset").i("case", icase).i("n", n).raw("stored", "[]").raw("feats", "[]").raw("target", "[]").i("nfeatures", dataset.features()).i(
            "columns", dataset.columns()).raw("col2feat", "[]").b("descOK", false).b("stackOK", true));
        return;
    }
    // the stack generates what its generators were asked for: the identity features of the given subsets (each once per generator),
    // the products of the given pairs of scalar features (as a set of unordered pairs: the product is symmetric)
    bool stackOK = true;
    {
        std::vector<std::pair<std::string, int64_t>> identity;
        std::set<std::pair<int64_t, int64_t>>        products;
        for (const auto& g : feats)
        {
            if (g.kind == "product")
            {
                products.emplace(std::min(g.src[0], g.src[1]), std::max(g.src[0], g.src[1]));
            }
            else
            {
                identity.emplace_back(g.kind, g.src[0]);
            }
        }
        std::sort(identity.begin(), identity.end());
        std::sort(expected_identity.begin(), expected_identity.end());
        stackOK = identity == expected_identity && products == expected_products;
    }

    // Reset record
    {
        std::string stored = "[";
        for (size_t c = 0; c < columns.size(); ++c)
        {
            std::vector<std::vector<int64_t>> vals;
            for (int64_t s = 0; s < n; ++s)
            {
                vals.push_back(stored_value(columns[c], s));
            }
            stored += (c ? "," : "") + json_lists(vals);
        }
        stored += "]";
        std::string fs = "[";
        for (size_t g = 0; g < feats.size(); ++g)
        {
            fs += std::string(g ? "," : "") + "{\"kind\":\"" + feats[g].kind + "\",\"src\":" + json_list(feats[g].src) + ",\"classes\":" +
                  std::to_string(feats[g].classes) + ",\"width\":" + std::to_string(feats[g].width) + "}";
        }
        fs += "]";
        std::string tg = "[]";
        if (has_target)
        {
            const auto& tf = columns[target].feature;
            tg = "[\"" + kind_of(tf) + "\"," + std::to_string(target) + "," + std::to_string(tf.classes()) + "," +
                 std::to_string((tf.is_sclass() || tf.is_mclass()) ? 1 : ::nano::size(tf.dims())) + "]";
        }
        std::vector<int64_t> col2feat;
        for (tensor_size_t c = 0; c < dataset.columns(); ++c)
        {
            col2feat.push_back(dataset.column2feature(c));
        }
        vt::put(vt::J("Reset").i("case", icase).i("n", n).raw("stored", stored).raw("feats", fs).raw("target", tg).i("nfeatures", dataset.features()).i(
            "columns", dataset.columns()).a("col2feat", col2feat).b("descOK", true).b("stackOK", stackOK));
    }

    buffers_t               kept; // see buffers_t
    const select_iterator_t iterator(dataset);

    // the views through select_iterator_t (per-thread buffers, the features of a kind distributed over the workers in chunks) are the
    // views of the direct calls: every feature of the kind is visited exactly once with its own index and values, by a worker
    // of the pool
    const auto record_iterator = [&](const indices_t& samples)
    {
        const auto               nfeats = static_cast<size_t>(dataset.features());
        std::vector<view_t>      direct(nfeats);
        std::vector<std::string> kinds(nfeats);
        for (tensor_size_t k = 0; k < dataset.features(); ++k)
        {
            const auto  i = static_cast<size_t>(k);
            const auto& g = feats[i];
            if (g.kind == "sclass")
            {
                sclass_mem_t buffer;
                direct[i] = copy_view(dataset.select(samples, k, buffer));
            }
            else if (g.kind == "mclass")
            {
                mclass_mem_t buffer;
                direct[i] = copy_view(dataset.select(samples, k, buffer));
            }
            else if (g.kind == "struct")
            {
                struct_mem_t buffer;
                direct[i] = copy_view(dataset.select(samples, k, buffer));
            }
            else
            {
                scalar_mem_t buffer;
                direct[i] = copy_view(dataset.select(samples, k, buffer));
            }
            kinds[i] = g.kind == "product" ? "scalar" : g.kind;
        }
        std::mutex               mutex;
        std::vector<int64_t>     visits;
        std::vector<std::string> via;
        bool                     valuesOK = true, workerOK = true, indexOK = true;
        const auto reset = [&]()
        {
            visits.assign(nfeats, 0);
            via.assign(nfeats, "");
        };
        const auto visit = [&](const char* kind, tensor_size_t ifeature, size_t tnum, const view_t& view)
        {
            const std::scoped_lock lock(mutex);
            workerOK = workerOK && tnum < dataset.concurrency();
            if (ifeature < 0 || ifeature >= dataset.features())
            {
                indexOK = false;
                return;
            }
            const auto i = static_cast<size_t>(ifeature);
            visits[i] += 1;
            via[i] = kind;
            valuesOK = valuesOK && same_view(view, direct[i]);
        };
        const sclass_callback_t on_sclass = [&](tensor_size_t f, size_t tnum, sclass_cmap_t v) { visit("sclass", f, tnum, copy_view(v)); };
        const mclass_callback_t on_mclass = [&](tensor_size_t f, size_t tnum, mclass_cmap_t v) { visit("mclass", f, tnum, copy_view(v)); };
        const scalar_callback_t on_scalar = [&](tensor_size_t f, size_t tnum, scalar_cmap_t v) { visit("scalar", f, tnum, copy_view(v)); };
        const struct_callback_t on_struct = [&](tensor_size_t f, size_t tnum, struct_cmap_t v) { visit("struct", f, tnum, copy_view(v)); };

        // (1) all features of a kind
        reset();
        iterator.loop(samples, on_sclass);
        iterator.loop(samples, on_mclass);
        iterator.loop(samples, on_scalar);
        iterator.loop(samples, on_struct);
        const auto visits_all = visits;
        const auto via_all    = via;

        // (2) one given feature
        reset();
        for (tensor_size_t k = 0; k < dataset.features(); ++k)
        {
            const auto& kind = kinds[static_cast<size_t>(k)];
            if (kind == "sclass")
            {
                iterator.loop(samples, k, on_sclass);
            }
            else if (kind == "mclass")
            {
                iterator.loop(samples, k, on_mclass);
            }
            else if (kind == "struct")
            {
                iterator.loop(samples, k, on_struct);
            }
            else
            {
                iterator.loop(samples, k, on_scalar);
            }
        }
        const auto visits_one = visits;
        const auto via_one    = via;

        // (3) the given features of a kind (any order, with repetitions)
        reset();
        std::vector<int64_t> listed(nfeats, 0);
        for (const auto* kind : {"sclass", "mclass", "scalar", "struct"})
        {
            std::vector<tensor_size_t> of_kind;
            for (tensor_size_t k = 0; k < dataset.features(); ++k)
            {
                if (kinds[static_cast<size_t>(k)] == kind)
                {
                    of_kind.push_back(k);
                }
            }
            if (of_kind.empty())
            {
                continue;
            }
            indices_t list(rng.range(1, static_cast<int64_t>(of_kind.size()) + 2));
            for (auto& f : list)
            {
                f = rng.pick(of_kind);
                listed[static_cast<size_t>(f)] += 1;
            }
            const auto skind = std::string(kind);
            if (skind == "sclass")
            {
                iterator.loop(samples, list, on_sclass);
            }
            else if (skind == "mclass")
            {
                iterator.loop(samples, list, on_mclass);
            }
            else if (skind == "struct")
            {
                iterator.loop(samples, list, on_struct);
            }
            else
            {
                iterator.loop(samples, list, on_scalar);
            }
        }
        std::string vias = "[", vias1 = "[";
        for (size_t i = 0; i < nfeats; ++i)
        {
            vias += std::string(i ? "," : "") + "\"" + via_all[i] + "\"";
            vias1 += std::string(i ? "," : "") + "\"" + via_one[i] + "\"";
        }
        vt::put(vt::J("Iter").i("threads", static_cast<int64_t>(dataset.concurrency())).i("nsamples", samples.size()).a("visits", visits_all).raw(
            "via", vias + "]").a("visits1", visits_one).raw("via1", vias1 + "]").a("visitsN", visits).a("listedN", listed).b("valuesOK", valuesOK).b(
            "workerOK", workerOK).b("indexOK", indexOK));
    };

    const auto record_views = [&]()
    {
        const auto samples = random_samples(rng, n, true);
        // either the buffers left by the previous calls (of any size) or new ones
        const auto keep = rng.coin(2, 3);
        auto       B    = buffers_t{};
        if (keep)
        {
            std::swap(B, kept);
        }
        bool       shapeOK = true;
        const auto flat    = dataset.flatten(samples, B.flat);
        shapeOK            = shapeOK && flat.size<0>() == samples.size() && flat.size<1>() == dataset.columns();
        std::vector<std::vector<int64_t>> rows;
        for (tensor_size_t i = 0; shapeOK && i < samples.size(); ++i)
        {
            std::vector<int64_t> row;
            for (tensor_size_t c = 0; c < dataset.columns(); ++c)
            {
                row.push_back(lat(flat(i, c)));
            }
            rows.push_back(row);
        }
        std::string sel = "[";
        for (tensor_size_t k = 0; k < dataset.features(); ++k)
        {
            const auto&                       g = feats[static_cast<size_t>(k)];
            std::vector<std::vector<int64_t>> vals;
            if (!keep)
            {
                B = buffers_t{};
            }
            if (g.kind == "sclass")
            {
                const auto v = dataset.select(samples, k, B.sclass);
                shapeOK      = shapeOK && v.size() == samples.size();
                for (tensor_size_t i = 0; shapeOK && i < samples.size(); ++i)
                {
                    vals.push_back({static_cast<int64_t>(v(i))});
                }
            }
            else if (g.kind == "mclass")
            {
                const auto v = dataset.select(samples, k, B.mclass);
                shapeOK      = shapeOK && v.size<0>() == samples.size() && v.size<1>() == g.classes;
                for (tensor_size_t i = 0; shapeOK && i < samples.size(); ++i)
                {
                    std::vector<int64_t> bits;
                    for (tensor_size_t c = 0; c < v.size<1>(); ++c)
                    {
                        bits.push_back(v(i, c));
                    }
                    vals.push_back(bits);
                }
            }
            else if (g.kind == "struct")
            {
                const auto v = dataset.select(samples, k, B.structured);
                shapeOK      = shapeOK && v.size<0>() == samples.size() && v.size() == samples.size() * g.width;
                for (tensor_size_t i = 0; shapeOK && i < samples.size(); ++i)
                {
                    std::vector<int64_t> xs;
                    const auto           t = v.tensor(i);
                    for (tensor_size_t c = 0; c < t.size(); ++c)
                    {
                        xs.push_back(lat(t(c)));
                    }
                    vals.push_back(xs);
                }
            }
            else
            {
                const auto v = dataset.select(samples, k, B.scalar);
                shapeOK      = shapeOK && v.size() == samples.size();
                for (tensor_size_t i = 0; shapeOK && i < samples.size(); ++i)
                {
                    vals.push_back({lat(v(i))});
                }
            }
            sel += (k ? "," : "") + json_lists(vals);
        }
        sel += "]";
        vt::put(vt::J("Views").a("samples", std::vector<int64_t>(samples.begin(), samples.end())).aa("flat", rows).raw("sel", sel).b("shapeOK", shapeOK));

        if (has_target && rng.coin(1, 2))
        {
            const auto& tf      = columns[target].feature;
            const auto  twidth  = tf.is_sclass() || tf.is_mclass() ? static_cast<tensor_size_t>(tf.classes()) : ::nano::size(tf.dims());
            const auto  targets = dataset.targets(samples, B.targets);
            shapeOK             = targets.size<0>() == samples.size() && targets.size() == samples.size() * twidth;
            std::vector<std::vector<int64_t>> trows, tsel;
            for (tensor_size_t i = 0; shapeOK && i < samples.size(); ++i)
            {
                std::vector<int64_t> row;
                const auto           t = targets.tensor(i);
                for (tensor_size_t c = 0; c < t.size(); ++c)
                {
                    row.push_back(lat(t(c)));
                }
                trows.push_back(row);
            }
            if (tf.is_sclass())
            {
                const auto v = dataset.select(samples, B.tsclass);
                shapeOK      = shapeOK && v.size() == samples.size();
                for (tensor_size_t i = 0; shapeOK && i < samples.size(); ++i)
                {
                    tsel.push_back({static_cast<int64_t>(v(i))});
                }
            }
            else if (tf.is_mclass())
            {
                const auto v = dataset.select(samples, B.tmclass);
                shapeOK      = shapeOK && v.size<0>() == samples.size() && v.size<1>() == twidth;
                for (tensor_size_t i = 0; shapeOK && i < samples.size(); ++i)
                {
                    std::vector<int64_t> bits;
                    for (tensor_size_t c = 0; c < v.size<1>(); ++c)
                    {
                        bits.push_back(v(i, c));
                    }
                    tsel.push_back(bits);
                }
            }
            else if (tf.is_scalar())
            {
                const auto v = dataset.select(samples, B.tscalar);
                shapeOK      = shapeOK && v.size() == samples.size();
                for (tensor_size_t i = 0; shapeOK && i < samples.size(); ++i)
                {
                    tsel.push_back({lat(v(i))});
                }
            }
            else
            {
                const auto v = dataset.select(samples, B.tstructured);
                shapeOK      = shapeOK && v.size<0>() == samples.size() && v.size() == samples.size() * twidth;
                for (tensor_size_t i = 0; shapeOK && i < samples.size(); ++i)
                {
                    std::vector<int64_t> xs;
                    const auto           t = v.tensor(i);
                    for (tensor_size_t c = 0; c < t.size(); ++c)
                    {
                        xs.push_back(lat(t(c)));
                    }
                    tsel.push_back(xs);
                }
            }
            vt::put(vt::J("Targets").a("samples", std::vector<int64_t>(samples.begin(), samples.end())).aa("rows", trows).aa("sel", tsel).b("shapeOK", shapeOK));
        }
        if (keep)
        {
            std::swap(B, kept);
        }
        if (rng.coin(1, 2))
        {
            record_iterator(samples);
        }
    };

    const auto bad_index = [&]()
    {
        const sclass_callback_t no_sclass = [](tensor_size_t, size_t, sclass_cmap_t) {};
        const mclass_callback_t no_mclass = [](tensor_size_t, size_t, mclass_cmap_t) {};
        const scalar_callback_t no_scalar = [](tensor_size_t, size_t, scalar_cmap_t) {};
        const struct_callback_t no_struct = [](tensor_size_t, size_t, struct_cmap_t) {};

        const auto index = rng.pick(std::vector<int64_t>{-1, n, n + 1, n + 7});
        auto       samples = random_samples(rng, n);
        samples(rng.range(0, samples.size() - 1)) = index;
        bool        threw = false;
        std::string via;
        try
        {
            switch (rng.range(0, 6))
            {
            case 6:
            {
                // the sample map of a feature (shuffled or not)
                via = "shuffled";
                (void)dataset.shuffled(rng.range(0, dataset.features() - 1), samples);
                break;
            }
            case 0:
            {
                via = "flatten";
                tensor2d_t buffer;
                (void)dataset.flatten(samples, buffer);
                break;
            }
            case 1:
            {
                via = "select";
                const auto k = rng.range(0, dataset.features() - 1);
                const auto& g = feats[static_cast<size_t>(k)];
                if (g.kind == "sclass")
                {
                    sclass_mem_t buffer;
                    (void)dataset.select(samples, k, buffer);
                }
                else if (g.kind == "mclass")
                {
                    mclass_mem_t buffer;
                    (void)dataset.select(samples, k, buffer);
                }
                else if (g.kind == "struct")
                {
                    struct_mem_t buffer;
                    (void)dataset.select(samples, k, buffer);
                }
                else
                {
                    scalar_mem_t buffer;
                    (void)dataset.select(samples, k, buffer);
                }
                break;
            }
            case 2:
            {
                if (has_target)
                {
                    via = "targets";
                    tensor4d_t buffer;
                    (void)dataset.targets(samples, buffer);
                }
                else
                {
                    via = "flatten";
                    tensor2d_t buffer;
                    (void)dataset.flatten(samples, buffer);
                }
                break;
            }
            case 3:
            {
                // the per-kind views of the target
                if (!has_target)
                {
                    via = "flatten";
                    (void)dataset.flatten(samples, kept.flat);
                }
                else if (const auto& tf = columns[target].feature; tf.is_sclass())
                {
                    via = "target-sclass";
                    (void)dataset.select(samples, kept.tsclass);
                }
                else if (tf.is_mclass())
                {
                    via = "target-mclass";
                    (void)dataset.select(samples, kept.tmclass);
                }
                else if (tf.is_scalar())
                {
                    via = "target-scalar";
                    (void)dataset.select(samples, kept.tscalar);
                }
                else
                {
                    via = "target-struct";
                    (void)dataset.select(samples, kept.tstructured);
                }
                break;
            }
            default:
            {
                // through the iterator: one feature | all features of the kind of a random feature (at least that one is read)
                const auto k    = rng.range(0, dataset.features() - 1);
                const auto kind = feats[static_cast<size_t>(k)].kind;
                const auto one  = rng.coin();
                via             = one ? "iterator-one" : "iterator-all";
                if (kind == "sclass")
                {
                    one ? iterator.loop(samples, k, no_sclass) : iterator.loop(samples, no_sclass);
                }
                else if (kind == "mclass")
                {
                    one ? iterator.loop(samples, k, no_mclass) : iterator.loop(samples, no_mclass);
                }
                else if (kind == "struct")
                {
                    one ? iterator.loop(samples, k, no_struct) : iterator.loop(samples, no_struct);
                }
                else
                {
                    one ? iterator.loop(samples, k, no_scalar) : iterator.loop(samples, no_scalar);
                }
                break;
            }
            }
        }
        catch (const std::exception&)
        {
            threw = true;
        }
        vt::put(vt::J("Bad").s("what", "sample").i("index", index).b("threw", threw).s("via", via));
        // feature indices
        const auto findex = rng.pick(std::vector<int64_t>{-1, dataset.features(), dataset.features() + 3});
        threw             = false;
        try
        {
            const auto ok_samples = random_samples(rng, n);
            switch (rng.range(0, 6))
            {
            case 0: via = "drop"; dataset.drop(findex); break;
            case 1: via = "shuffle"; dataset.shuffle(findex); break;
            case 2: via = "feature"; (void)dataset.feature(findex); break;
            case 3:
            {
                via = "select";
                scalar_mem_t buffer;
                (void)dataset.select(ok_samples, findex, buffer);
                break;
            }
            case 4: via = "shuffled"; (void)dataset.shuffled(findex, ok_samples); break;
            case 5: via = "iterator-one"; iterator.loop(ok_samples, findex, no_scalar); break;
            default:
            {
                // a list of features of one kind with an invalid index among them
                via             = "iterator-list";
                const auto kind = feats[static_cast<size_t>(rng.range(0, dataset.features() - 1))].kind;
                std::vector<tensor_size_t> of_kind;
                for (tensor_size_t k = 0; k < dataset.features(); ++k)
                {
                    if (feats[static_cast<size_t>(k)].kind == kind)
                    {
                        of_kind.push_back(k);
                    }
                }
                indices_t list(rng.range(1, 4));
                for (auto& f : list)
                {
                    f = rng.pick(of_kind);
                }
                list(rng.range(0, list.size() - 1)) = findex;
                if (kind == "sclass")
                {
                    iterator.loop(ok_samples, list, no_sclass);
                }
                else if (kind == "mclass")
                {
                    iterator.loop(ok_samples, list, no_mclass);
                }
                else if (kind == "struct")
                {
                    iterator.loop(ok_samples, list, no_struct);
                }
                else
                {
                    iterator.loop(ok_samples, list, no_scalar);
                }
                break;
            }
            }
        }
        catch (const std::exception&)
        {
            threw = true;
        }
        vt::put(vt::J("Bad").s("what", "feature").i("index", findex).b("threw", threw).s("via", via));
    };

    // shuffled(feature, samples) of a feature that is not shuffled: as many indices as given, all valid
    std::vector<char> is_shuffled(static_cast<size_t>(dataset.features()), 0);
    std::vector<char> was_shuffled(static_cast<size_t>(dataset.features()), 0);
    const auto not_shuffled = [&]()
    {
        std::vector<tensor_size_t> candidates;
        for (tensor_size_t k = 0; k < dataset.features(); ++k)
        {
            if (is_shuffled[static_cast<size_t>(k)] == 0)
            {
                candidates.push_back(k);
            }
        }
        if (candidates.empty())
        {
            return;
        }
        // one feature at random and every feature that WAS shuffled earlier in this history (a shuffle cancelled by drop / undrop /
        // unshuffle must not be reported any more: the views are those of the stored order again)
        std::vector<tensor_size_t> probes{rng.pick(candidates)};
        for (const auto k : candidates)
        {
            if (was_shuffled[static_cast<size_t>(k)] != 0 && k != probes[0])
            {
                probes.push_back(k);
            }
        }
        for (const auto f : probes)
        {
            const auto samples = random_samples(rng, n, true);
            const auto out     = dataset.shuffled(f, samples);
            vt::put(vt::J("Unshuffled").i("f", f).a("samples", std::vector<int64_t>(samples.begin(), samples.end())).a(
                "out", std::vector<int64_t>(out.begin(), out.end())));
        }
    };

    record_views();
    not_shuffled();
    const auto nops = rng.range(0, 8);
    for (int64_t i = 0; i < nops; ++i)
    {
        const auto f  = rng.range(0, dataset.features() - 1);
        const auto op = rng.range(0, 9);
        if (op <= 3)
        {
            dataset.drop(f);
            vt::put(vt::J("Op").s("op", "drop").i("f", f));
            is_shuffled[static_cast<size_t>(f)] = 0;
        }
        else if (op <= 7)
        {
            dataset.shuffle(f);
            is_shuffled[static_cast<size_t>(f)] = 1;
            was_shuffled[static_cast<size_t>(f)] = 1;
            const auto perm = dataset.shuffled(f, arange(0, n));
            vt::put(vt::J("Op").s("op", "shuffle").i("f", f).a("perm", std::vector<int64_t>(perm.begin(), perm.end())));
            const auto samples = random_samples(rng, n, true);
            const auto out     = dataset.shuffled(f, samples);
            vt::put(vt::J("Shuffled").i("f", f).a("samples", std::vector<int64_t>(samples.begin(), samples.end())).a(
                "out", std::vector<int64_t>(out.begin(), out.end())));
        }
        else if (op == 8)
        {
            dataset.undrop();
            vt::put(vt::J("Op").s("op", "undrop"));
            std::fill(is_shuffled.begin(), is_shuffled.end(), 0);
        }
        else
        {
            dataset.unshuffle();
            vt::put(vt::J("Op").s("op", "unshuffle"));
            std::fill(is_shuffled.begin(), is_shuffled.end(), 0);
        }
        record_views();
        if (rng.coin(1, 2) || op >= 8 || op <= 3)
        {
            not_shuffled();
        }
        if (rng.coin(1, 3))
        {
            bad_index();
        }
    }
    bad_index();
}
} // namespace

int main(int argc, char* argv[])
{
    if (argc < 4)
    {
        std::fprintf(stderr, "usage: dataset_driver <out.ndjson> <seed> <cases>\n");
        return 2;
    }
    vt::Trace::get().open(argv[1]);
    vt::Rng    rng(static_cast<uint64_t>(std::atoll(argv[2])));
    const auto cases = std::atoll(argv[3]);
    for (int64_t i = 0; i < cases; ++i)
    {
        try
        {
            dataset_case(rng, i);
        }
        catch (const std::exception& e)
        {
            vt::put(vt::J("Abort").s("why", e.what()).i("case", i));
        }
    }
    vt::put(vt::J("Reset").i("case", -1).i("n", 0).raw("stored", "[]").raw("feats", "[]").raw("target", "[]").i("nfeatures", 0).i("columns", 0).raw(
        "col2feat", "[]").b("descOK", true).b("stackOK", true));
    return 0;
}
