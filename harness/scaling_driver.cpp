// C14 conformance driver (scoped lattice check): per-column statistics, the four scaling modes, up-scaling and the affine
// up-scaling of a linear model on data where every statistic is exact.
//   scaling_driver <out.ndjson> <seed> <cases>
#include "tabledata.h"
#include <nano/dataset.h>
#include <nano/dataset/iterator.h>
#include <nano/dataset/stats.h>
#include <nano/generator/elemwise_identity.h>
#include <nano/linear/util.h>

using namespace nano;

namespace
{
constexpr int64_t Missing = -999;

// a column {m - s (a times), m (c times), m + s (a times)} in random order; c = 1 gives a sample deviation of exactly s
void fill_lattice(vt::Rng& rng, vt::column_t& col, int64_t n, int64_t& given)
{
    const auto kind = rng.range(0, 9);
    std::vector<double> values;
    if (kind == 0)
    {
        values.assign(static_cast<size_t>(n), static_cast<double>(rng.range(-9, 9))); // constant column
    }
    else
    {
        const auto m = static_cast<double>(rng.range(-8, 8));
        const auto s = static_cast<double>(1 << rng.range(0, 4));
        const auto a = (n - 1) / 2;
        for (int64_t i = 0; i < a; ++i)
        {
            values.push_back(m - s);
            values.push_back(m + s);
        }
        while (static_cast<int64_t>(values.size()) < n)
        {
            values.push_back(m);
        }
    }
    for (size_t i = values.size(); i > 1; --i)
    {
        std::swap(values[i - 1], values[static_cast<size_t>(rng.range(0, static_cast<int64_t>(i) - 1))]);
    }
    given = 0;
    const auto missing_kind = rng.range(0, 7); // 0: all missing, 1: single sample, else: the lattice values of an odd-sized prefix
    for (int64_t i = 0; i < n; ++i)
    {
        col.flat[static_cast<size_t>(i)] = values[static_cast<size_t>(i)];
    }
    if (missing_kind == 0)
    {
        std::fill(col.missing.begin(), col.missing.end(), 1);
    }
    else if (missing_kind == 1)
    {
        std::fill(col.missing.begin(), col.missing.end(), 1);
        col.missing[static_cast<size_t>(rng.range(0, n - 1))] = 0;
        given = 1;
    }
    else
    {
        given = n;
    }
}

std::vector<int64_t> lat4(const double* data, tensor_size_t size, tensor_size_t stride, bool& exact)
{
    std::vector<int64_t> out;
    for (tensor_size_t i = 0; i < size; ++i)
    {
        int64_t k = 0;
        exact     = vt::to_lattice(data[i * stride], 4.0, k) && exact;
        out.push_back(k);
    }
    return out;
}

void scale_case(vt::Rng& rng, int64_t icase)
{
    // NB: lattice columns need an odd number of samples (N = 2a + 1); arbitrary missing patterns are put on extra samples
    const auto base  = 2 * rng.range(1, 8) + 1;
    const auto extra = rng.range(0, 4);
    const auto n     = base + extra;
    const auto ncont = rng.range(1, 4), ncat = rng.range(0, 2);
    std::vector<vt::column_t> columns;
    for (int64_t c = 0; c < ncont; ++c)
    {
        auto    col = vt::make_scalar_column("x" + std::to_string(c), rng.coin() ? feature_type::float64 : feature_type::int32, n);
        auto    head = vt::make_scalar_column("tmp", feature_type::float64, base);
        int64_t given = 0;
        fill_lattice(rng, head, base, given);
        for (int64_t i = 0; i < base; ++i)
        {
            col.flat[static_cast<size_t>(i)]    = head.flat[static_cast<size_t>(i)];
            col.missing[static_cast<size_t>(i)] = head.missing[static_cast<size_t>(i)];
        }
        for (int64_t i = base; i < n; ++i)
        {
            col.missing[static_cast<size_t>(i)] = 1; // extra samples: missing in the continuous columns
        }
        columns.push_back(col);
    }
    for (int64_t c = 0; c < ncat; ++c)
    {
        auto col = vt::make_sclass_column("c" + std::to_string(c), 3, n);
        for (int64_t i = 0; i < n; ++i)
        {
            col.flat[static_cast<size_t>(i)]    = static_cast<double>(rng.range(0, 2));
            col.missing[static_cast<size_t>(i)] = static_cast<char>(rng.coin(1, 6));
        }
        columns.push_back(col);
    }
    // a multi-label categorical input (never rescaled) and a structured continuous one (two lattice components, one missing pattern)
    if (rng.coin(1, 3))
    {
        const auto classes = rng.range(2, 3);
        auto       col     = vt::make_mclass_column("m0", classes, n);
        for (int64_t i = 0; i < n; ++i)
        {
            for (int64_t k = 0; k < classes; ++k)
            {
                col.flat[static_cast<size_t>(i * classes + k)] = rng.coin() ? 1.0 : 0.0;
            }
            col.missing[static_cast<size_t>(i)] = static_cast<char>(rng.coin(1, 6));
        }
        columns.push_back(col);
    }
    if (rng.coin(1, 3))
    {
        auto col = vt::make_struct_column("s0", feature_type::float64, make_dims(2, 1, 1), n);
        std::fill(col.missing.begin(), col.missing.end(), 1); // extra samples: missing
        for (int64_t k = 0; k < 2; ++k)
        {
            auto    head  = vt::make_scalar_column("tmp", feature_type::float64, base);
            int64_t given = 0;
            fill_lattice(rng, head, base, given);
            for (int64_t i = 0; i < base; ++i)
            {
                col.flat[static_cast<size_t>(2 * i + k)] = head.flat[static_cast<size_t>(i)];
                if (k == 0)
                {
                    col.missing[static_cast<size_t>(i)] = head.missing[static_cast<size_t>(i)];
                }
            }
        }
        columns.push_back(col);
    }
    {
        auto    col   = vt::make_scalar_column("y", feature_type::float64, n);
        int64_t given = 0;
        auto    head  = vt::make_scalar_column("tmp", feature_type::float64, n % 2 == 1 ? n : n - 1);
        fill_lattice(rng, head, static_cast<int64_t>(head.flat.size()), given);
        for (size_t i = 0; i < head.flat.size(); ++i)
        {
            col.flat[i] = head.flat[i];
        }
        if (n % 2 == 0)
        {
            col.flat[static_cast<size_t>(n - 1)] = col.flat[0];
        }
        columns.push_back(col); // targets may not be missing
    }
    vt::table_datasource_t source(n, columns, columns.size() - 1U);
    source.load();
    dataset_t dataset(source, static_cast<size_t>(rng.range(1, 8)));
    dataset.add<sclass_identity_generator_t>();
    dataset.add<mclass_identity_generator_t>();
    dataset.add<scalar_identity_generator_t>();
    dataset.add<struct_identity_generator_t>();

    // all samples, sometimes listed in another order (the same columns: the statistics stay on the lattice)
    auto samples = arange(0, n);
    if (rng.coin(1, 3))
    {
        for (tensor_size_t i = n; i > 1; --i)
        {
            std::swap(samples(i - 1), samples(rng.range(0, i - 1)));
        }
    }
    const auto stats   = scalar_stats_t::make_flatten_stats(dataset, samples, rng.pick(std::vector<tensor_size_t>{1, 3, 1000}));
    tensor2d_t buffer;
    const auto raw = tensor2d_t{dataset.flatten(samples, buffer)};

    for (const auto& [mode, name] : std::vector<std::pair<scaling_type, std::string>>{
             {scaling_type::none, "none"}, {scaling_type::mean, "mean"}, {scaling_type::minmax, "minmax"}, {scaling_type::standard, "standard"}})
    {
        auto scaled = raw;
        stats.scale(mode, scaled.tensor());
        auto back = scaled;
        stats.upscale(mode, back.tensor());
        bool        exact = true, inverts = true, rmdOK = true;
        std::string cols = "[", kinds = "[", st = "[", sc = "[";
        for (tensor_size_t c = 0; c < raw.size<1>(); ++c)
        {
            const auto feature = dataset.feature(dataset.column2feature(c));
            const auto isclass = feature.is_sclass() || feature.is_mclass();
            std::vector<int64_t> col;
            std::vector<double>  given_scaled;
            for (tensor_size_t i = 0; i < n; ++i)
            {
                const auto v = raw(i, c);
                col.push_back(std::isnan(v) ? Missing : static_cast<int64_t>(v));
                if (!std::isnan(v))
                {
                    inverts = inverts && std::fabs(back(i, c) - v) <= 1e-12 * std::max(1.0, std::fabs(v)); // up to rounding
                    given_scaled.push_back(scaled(i, c));
                }
            }
            // advertised range / mean / deviation of the scaled continuous columns (more than one distinct value)
            if (!isclass && given_scaled.size() > 1)
            {
                const auto mn = *std::min_element(given_scaled.begin(), given_scaled.end());
                const auto mx = *std::max_element(given_scaled.begin(), given_scaled.end());
                double     mean = 0, var = 0;
                for (const auto v : given_scaled)
                {
                    mean += v;
                }
                mean /= static_cast<double>(given_scaled.size());
                for (const auto v : given_scaled)
                {
                    var += (v - mean) * (v - mean);
                }
                var /= static_cast<double>(given_scaled.size() - 1);
                if (mx > mn)
                {
                    // (up to rounding: how the statistics are accumulated is the implementation's choice)
                    const auto near = [](const double a, const double b) { return std::fabs(a - b) <= 1e-12; };
                    rmdOK = rmdOK && (mode != scaling_type::mean || (near(mean, 0.0) && near(mx - mn, 1.0)));
                    rmdOK = rmdOK && (mode != scaling_type::minmax || (near(mn, 0.0) && near(mx, 1.0)));
                    rmdOK = rmdOK && (mode != scaling_type::standard || (near(mean, 0.0) && near(var, 1.0)));
                }
            }
            const auto sep = c > 0 ? "," : "";
            std::string cs = "[";
            for (size_t i = 0; i < col.size(); ++i)
            {
                cs += (i ? "," : "") + std::to_string(col[i]);
            }
            cols += sep + cs + "]";
            kinds += std::string(sep) + (isclass ? "\"class\"" : "\"scalar\"");
            int64_t meanN = 0, stdev = 0, mn = 0, mx = 0;
            exact = vt::to_lattice(stats.m_mean(c) * static_cast<double>(stats.m_samples(c)), 1.0, meanN) && exact;
            exact = vt::to_lattice(stats.m_stdev(c), 1.0, stdev) && exact;
            exact = vt::to_lattice(stats.m_min(c), 1.0, mn) && exact;
            exact = vt::to_lattice(stats.m_max(c), 1.0, mx) && exact;
            st += std::string(sep) + "{\"n\":" + std::to_string(stats.m_samples(c)) + ",\"min\":" + std::to_string(mn) + ",\"max\":" + std::to_string(mx) +
                  ",\"meanN\":" + std::to_string(meanN) + ",\"stdev\":" + std::to_string(stdev) + "}";
            const auto s4 = lat4(scaled.data() + c, n, raw.size<1>(), exact);
            std::string ss = "[";
            for (size_t i = 0; i < s4.size(); ++i)
            {
                ss += (i ? "," : "") + std::to_string(s4[i]);
            }
            sc += sep + ss + "]";
        }
        if (!exact)
        {
            vt::put(vt::J("Inexact").i("case", icase).s("mode", name));
            continue;
        }
        vt::put(vt::J("Scale").i("case", icase).s("mode", name).raw("cols", cols + "]").raw("kinds", kinds + "]").raw("stats", st + "]").raw("scaled4", sc + "]").b(
            "upscaleInverts", inverts).b("rangeMeanDevOK", rmdOK));
    }

    // affine up-scaling of integer weights and bias (all inputs given: use the samples without missing continuous values)
    {
        std::vector<tensor_size_t> full;
        for (tensor_size_t i = 0; i < n; ++i)
        {
            bool ok = true;
            for (tensor_size_t c = 0; c < raw.size<1>(); ++c)
            {
                ok = ok && !std::isnan(raw(i, c));
            }
            if (ok)
            {
                full.push_back(i);
            }
        }
        const auto tstats = scalar_stats_t::make_targets_stats(dataset, samples);
        const auto modes  = std::vector<scaling_type>{scaling_type::none, scaling_type::mean, scaling_type::minmax, scaling_type::standard};
        const auto min_  = rng.pick(modes), mout = rng.pick(modes);
        const auto isize = raw.size<1>();
        tensor2d_t W(1, isize);
        tensor1d_t b(1);
        for (tensor_size_t c = 0; c < isize; ++c)
        {
            W(0, c) = static_cast<double>(rng.range(-3, 3));
        }
        b(0) = static_cast<double>(rng.range(-3, 3));
        auto Wu = W;
        auto bu = b;
        ::nano::upscale(stats, min_, tstats, mout, Wu.tensor(), bu.tensor());
        std::vector<int64_t> predRaw, predUp;
        bool                 exact = true, same = true;
        for (const auto i : full)
        {
            // the original model on scaled inputs, its prediction up-scaled
            tensor2d_t x(1, isize);
            for (tensor_size_t c = 0; c < isize; ++c)
            {
                x(0, c) = raw(i, c);
            }
            auto xs = x;
            stats.scale(min_, xs.tensor());
            tensor4d_t ys(make_dims(1, 1, 1, 1)), yr(make_dims(1, 1, 1, 1));
            linear::predict(xs, W, b, ys.tensor());
            tstats.upscale(mout, ys.tensor());
            linear::predict(x, Wu, bu, yr.tensor());
            int64_t a = 0, bb = 0;
            exact = vt::to_lattice(ys(0), 16.0, a) && vt::to_lattice(yr(0), 16.0, bb) && exact;
            predUp.push_back(a);
            predRaw.push_back(bb);
            // agreement up to rounding relative to the magnitude of the summed terms (constant columns have a scale of 1 / epsilon)
            double magnitude = std::fabs(bu(0)) + std::fabs(ys(0)) + 1.0;
            for (tensor_size_t c = 0; c < isize; ++c)
            {
                magnitude += std::fabs(Wu(0, c) * x(0, c));
            }
            same = same && std::fabs(ys(0) - yr(0)) <= 1e-12 * magnitude;
        }
        if (exact)
        {
            vt::put(vt::J("Affine").i("case", icase).a("predRaw", predRaw).a("predUp", predUp).b("exactSame", same));
        }
        else
        {
            // degenerate columns (constant: the scale is 1 / epsilon, not a power of two) leave the lattice: only the agreement
            // up to rounding is required of them
            vt::put(vt::J("Affine").i("case", icase).a("predRaw", std::vector<int64_t>{}).a("predUp", std::vector<int64_t>{}).b("exactSame", same));
        }
    }
}

// ---- float oracle (environment predicates): matrices of 1..300 rows x 1..20 continuous columns with magnitudes 1e-6..1e6, arbitrary
// missing patterns, categorical (single- and multi-label) and structured columns in between, multi-output linear models, continuous and
// categorical targets, arbitrary sample lists (subsets, permutations, repetitions); statistics recomputed in long double by the driver
struct ref_t
{
    int64_t     cnt{0};
    long double lo{0}, hi{0}, mean{0}, sdev{0};

    long double mag() const { return std::max<long double>({std::fabs(lo), std::fabs(hi), 1e-300L}); }
};

template <class tget>
ref_t make_ref(const tensor_size_t rows, const tget& get)
{
    ref_t       r;
    long double sum = 0;
    for (tensor_size_t i = 0; i < rows; ++i)
    {
        const double v = get(i);
        if (std::isfinite(v))
        {
            sum += v;
            r.lo = r.cnt == 0 ? v : std::min<long double>(r.lo, v);
            r.hi = r.cnt == 0 ? v : std::max<long double>(r.hi, v);
            ++r.cnt;
        }
    }
    r.mean = r.cnt > 0 ? sum / r.cnt : 0;
    long double ss = 0;
    for (tensor_size_t i = 0; i < rows; ++i)
    {
        const double v = get(i);
        if (std::isfinite(v))
        {
            ss += (v - r.mean) * (v - r.mean);
        }
    }
    r.sdev = r.cnt > 1 ? std::sqrt(ss / (r.cnt - 1)) : 0;
    return r;
}

// the statistics of component c are those of the reference (up to rounding: how they are accumulated is the implementation's choice)
bool stats_match(const scalar_stats_t& stats, const tensor_size_t c, const ref_t& r)
{
    if (stats.m_samples(c) != r.cnt)
    {
        return false;
    }
    if (r.cnt == 0)
    {
        return true;
    }
    const auto mag = r.mag();
    auto       ok  = stats.m_min(c) == static_cast<double>(r.lo) && stats.m_max(c) == static_cast<double>(r.hi) && std::fabs(stats.m_mean(c) - r.mean) <= 1e-12L * mag;
    if (r.cnt > 1)
    {
        ok = ok && std::fabs(stats.m_stdev(c) - r.sdev) <= 1e-6L * std::max(r.sdev, 1e-12L * mag) + 64 * 2.3e-16L * mag; // (+ the rounding of the values themselves)
    }
    return ok;
}

// advertised range / mean / deviation of the scaled finite values of a continuous column
bool advertised_ok(const scaling_type mode, const std::vector<double>& scaled, const ref_t& r)
{
    const auto k = static_cast<int64_t>(scaled.size());
    if (k < 2 || !(r.hi - r.lo >= 1e-7L))
    {
        // degenerate columns are left as they are (decided exactly on the lattice); the library treats a range or deviation below
        // an ABSOLUTE epsilon (~1.5e-8) as degenerate, so columns of magnitude 1e-6 with a tiny spread are not required to
        // reach the advertised range either
        return true;
    }
    long double ssum = 0, ssq = 0, smin = scaled[0], smax = scaled[0];
    for (const auto v : scaled)
    {
        ssum += v;
        smin = std::min<long double>(smin, v);
        smax = std::max<long double>(smax, v);
    }
    const auto smean = ssum / k;
    for (const auto v : scaled)
    {
        ssq += (v - smean) * (v - smean);
    }
    const auto sdev1 = std::sqrt(ssq / (k - 1));
    // tolerances: rounding of the statistics themselves is amplified by |value| / spread for near-constant columns
    const auto big  = std::max<long double>(std::fabs(r.lo), std::fabs(r.hi));
    const auto tolr = 1e-9L + 64 * 2.3e-16L * big / (r.hi - r.lo);
    const auto tols = 1e-6L + 64 * 2.3e-16L * big / std::max<long double>(r.sdev, 1e-300L);
    switch (mode)
    {
    case scaling_type::minmax: return std::fabs(smin) <= tolr && std::fabs(smax - 1) <= tolr;
    case scaling_type::mean: return std::fabs(smean) <= tolr && smax - smin <= 1 + tolr;
    case scaling_type::standard: return std::fabs(smean) <= tols && std::fabs(sdev1 - 1) <= tols;
    default: return true;
    }
}

void float_case(vt::Rng& rng, int64_t icase)
{
    const auto n     = rng.coin(1, 6) ? rng.pick(std::vector<int64_t>{1, 2, 300}) : rng.range(1, 300);
    const auto ncont = rng.range(1, 20), ncat = rng.range(0, 3), tsize = rng.range(1, 5);
    const auto nmcl  = rng.coin(1, 2) ? rng.range(1, 2) : int64_t{0}, nstr = rng.coin(1, 2) ? rng.range(1, 2) : int64_t{0};
    std::vector<vt::column_t> columns;
    const auto fill_continuous = [&](vt::column_t& col)
    {
        const auto m   = (rng.coin() ? -1.0 : 1.0) * (rng.coin(1, 5) ? 0.0 : std::pow(10.0, rng.uniform(-6.0, 6.0)));
        // spread: down to eight orders of magnitude below the mean (near-constant columns)
        const auto s   = std::max(std::fabs(m) * 1e-8, std::pow(10.0, rng.uniform(-6.0, 6.0)));
        const auto density = rng.pick(std::vector<int>{0, 0, 1, 3, 7});
        for (int64_t i = 0; i < n; ++i)
        {
            for (int64_t k = 0; k < col.width; ++k)
            {
                col.flat[static_cast<size_t>(i * col.width + k)] = m + s * rng.uniform(-1.0, 1.0);
            }
            col.missing[static_cast<size_t>(i)] = static_cast<char>(rng.range(0, 9) < density);
        }
    };
    for (int64_t c = 0; c < ncont + ncat; ++c)
    {
        if (c < ncont)
        {
            auto col = vt::make_scalar_column("x" + std::to_string(c), feature_type::float64, n);
            fill_continuous(col);
            columns.push_back(col);
        }
        else
        {
            auto col = vt::make_sclass_column("c" + std::to_string(c), 3, n);
            for (int64_t i = 0; i < n; ++i)
            {
                col.flat[static_cast<size_t>(i)]    = static_cast<double>(rng.range(0, 2));
                col.missing[static_cast<size_t>(i)] = static_cast<char>(rng.coin(1, 6));
            }
            columns.push_back(col);
        }
    }
    // multi-label categorical inputs (never rescaled) and structured continuous ones (every component rescaled on its own)
    for (int64_t c = 0; c < nmcl; ++c)
    {
        const auto classes = rng.range(2, 4);
        auto       col     = vt::make_mclass_column("m" + std::to_string(c), classes, n);
        for (int64_t i = 0; i < n; ++i)
        {
            for (int64_t k = 0; k < classes; ++k)
            {
                col.flat[static_cast<size_t>(i * classes + k)] = rng.coin() ? 1.0 : 0.0;
            }
            col.missing[static_cast<size_t>(i)] = static_cast<char>(rng.coin(1, 6));
        }
        columns.push_back(col);
    }
    for (int64_t c = 0; c < nstr; ++c)
    {
        const auto dims = rng.pick(std::vector<tensor3d_dims_t>{make_dims(2, 1, 1), make_dims(1, 3, 1), make_dims(2, 1, 2), make_dims(1, 1, 2)});
        auto       col  = vt::make_struct_column("s" + std::to_string(c), feature_type::float64, dims, n);
        fill_continuous(col);
        if (rng.coin(1, 3))
        {
            // components of very different magnitudes
            for (int64_t i = 0; i < n; ++i)
            {
                col.flat[static_cast<size_t>(i * col.width)] = 1e3 * rng.uniform(-1.0, 1.0);
            }
        }
        columns.push_back(col);
    }
    // interleave categorical and continuous columns
    for (size_t i = columns.size(); i > 1; --i)
    {
        std::swap(columns[i - 1], columns[static_cast<size_t>(rng.range(0, static_cast<int64_t>(i) - 1))]);
    }
    // the target: continuous (scalar or structured) or categorical (single- or multi-label: never rescaled)
    const auto target_kind = rng.coin(1, 4) ? (rng.coin() ? 1 : 2) : 0;
    if (target_kind == 0)
    {
        auto col = tsize == 1 ? vt::make_scalar_column("y", feature_type::float64, n) : vt::make_struct_column("y", feature_type::float64, make_dims(tsize, 1, 1), n);
        const auto m = (rng.coin() ? -1.0 : 1.0) * std::pow(10.0, rng.uniform(-3.0, 3.0));
        // relative spread of every target component: of the order of the magnitude, sometimes near-constant or constant
        std::vector<double> spread(static_cast<size_t>(tsize), 1.0);
        for (auto& s : spread)
        {
            s = rng.coin(1, 5) ? (rng.coin(1, 4) ? 0.0 : std::pow(10.0, rng.uniform(-8.0, -1.0))) : 1.0;
        }
        for (int64_t i = 0; i < n; ++i)
        {
            for (int64_t k = 0; k < tsize; ++k)
            {
                col.flat[static_cast<size_t>(i * tsize + k)] = m * (1.0 + spread[static_cast<size_t>(k)] * rng.uniform(-1.0, 1.0));
            }
        }
        columns.push_back(col);
    }
    else if (target_kind == 1)
    {
        auto col = vt::make_sclass_column("y", tsize + 1, n);
        for (int64_t i = 0; i < n; ++i)
        {
            col.flat[static_cast<size_t>(i)] = static_cast<double>(rng.range(0, tsize));
        }
        columns.push_back(col);
    }
    else
    {
        auto col = vt::make_mclass_column("y", tsize + 1, n);
        for (auto& v : col.flat)
        {
            v = rng.coin() ? 1.0 : 0.0;
        }
        columns.push_back(col);
    }
    vt::table_datasource_t source(n, columns, columns.size() - 1U);
    source.load();
    dataset_t dataset(source, static_cast<size_t>(rng.range(1, 8)));
    dataset.add<sclass_identity_generator_t>();
    dataset.add<mclass_identity_generator_t>();
    dataset.add<scalar_identity_generator_t>();
    dataset.add<struct_identity_generator_t>();

    // the listed samples: all of them, a strict subset, a permutation, or a list with repeated indices - the statistics are those of the
    // listed samples (with multiplicity)
    indices_t samples = arange(0, n);
    switch (rng.range(0, 5))
    {
    case 0:
    case 1: break;
    case 2: // a permutation
        for (tensor_size_t i = n; i > 1; --i)
        {
            std::swap(samples(i - 1), samples(rng.range(0, i - 1)));
        }
        break;
    case 3: // a strict subset (if there is one), in increasing or in random order
        if (n > 1)
        {
            for (tensor_size_t i = n; i > 1; --i)
            {
                std::swap(samples(i - 1), samples(rng.range(0, i - 1)));
            }
            const auto size = rng.range(1, n - 1);
            samples         = indices_t{samples.slice(0, size)};
            if (rng.coin())
            {
                std::sort(samples.begin(), samples.end());
            }
        }
        break;
    default: // repeated indices
    {
        const auto size = rng.range(1, std::min<int64_t>(300, 2 * n));
        samples.resize(size);
        for (tensor_size_t i = 0; i < size; ++i)
        {
            samples(i) = rng.coin(1, 4) && i > 0 ? samples(i - 1) : rng.range(0, n - 1);
        }
        break;
    }
    }
    const auto ns = samples.size();

    const auto stats   = scalar_stats_t::make_flatten_stats(dataset, samples, rng.pick(std::vector<tensor_size_t>{1, 3, 7, 64, 1000}));
    const auto tstats  = scalar_stats_t::make_targets_stats(dataset, samples, rng.pick(std::vector<tensor_size_t>{1, 5, 1000}));
    tensor2d_t buffer;
    const auto raw   = tensor2d_t{dataset.flatten(samples, buffer)};
    const auto isize = raw.size<1>();
    tensor4d_t tbuffer;
    const auto rawt  = tensor4d_t{dataset.targets(samples, tbuffer)};
    const auto osize = rawt.size() / std::max<tensor_size_t>(ns, 1); // number of outputs
    const auto rawt2 = rawt.reshape(ns, osize);
    // which flattened columns are categorical: the dataset says so through its column -> feature map
    std::vector<bool> categorical(static_cast<size_t>(isize), false);
    // ... and the driver knows it from the names of its own columns; the continuous values are those of the driver's table at the listed samples
    bool tableOK = true;
    for (tensor_size_t c = 0; c < isize; ++c)
    {
        const auto f = dataset.column2feature(c);
        categorical[static_cast<size_t>(c)] = dataset.feature(f).is_sclass() || dataset.feature(f).is_mclass();
        const auto name = dataset.feature(f).name();
        const auto it   = std::find_if(columns.begin(), columns.end(), [&](const auto& col) { return col.feature.name() == name; });
        tableOK         = tableOK && it != columns.end() && !name.empty() && categorical[static_cast<size_t>(c)] == (name[0] == 'c' || name[0] == 'm');
        if (it == columns.end() || categorical[static_cast<size_t>(c)])
        {
            continue;
        }
        tensor_size_t k = 0; // the component of the feature stored in this column
        for (tensor_size_t cc = 0; cc < c; ++cc)
        {
            k += dataset.column2feature(cc) == f ? 1 : 0;
        }
        tableOK = tableOK && k < it->width;
        for (tensor_size_t i = 0; i < ns && k < it->width; ++i)
        {
            const auto s = samples(i);
            const auto v = raw(i, c);
            tableOK      = tableOK && (it->missing[static_cast<size_t>(s)] != 0 ? std::isnan(v) : (v == it->at(s, k)));
        }
    }
    tableOK = tableOK && (target_kind == 0 ? osize == tsize : osize == tsize + 1);
    if (target_kind == 0)
    {
        for (tensor_size_t i = 0; i < ns; ++i)
        {
            for (tensor_size_t k = 0; k < osize; ++k)
            {
                tableOK = tableOK && rawt2(i, k) == columns.back().at(samples(i), k);
            }
        }
    }
    // the driver's own statistics
    bool statsOK = true;
    std::vector<ref_t> refs;
    std::vector<long double> mean(static_cast<size_t>(isize), 0), sdev(static_cast<size_t>(isize), 0), lo(static_cast<size_t>(isize), 0), hi(static_cast<size_t>(isize), 0);
    std::vector<int64_t>     cnt(static_cast<size_t>(isize), 0);
    for (tensor_size_t c = 0; c < isize; ++c)
    {
        const auto u = static_cast<size_t>(c);
        refs.push_back(make_ref(ns, [&](const tensor_size_t i) { return raw(i, c); }));
        cnt[u]  = refs[u].cnt;
        lo[u]   = refs[u].lo;
        hi[u]   = refs[u].hi;
        mean[u] = refs[u].mean;
        sdev[u] = refs[u].sdev;
        if (!categorical[u] && cnt[u] > 1)
        {
            const auto mag = std::max<long double>({std::fabs(lo[u]), std::fabs(hi[u]), 1e-300L});
            if (std::getenv("VERIF_DEBUG") != nullptr)
            {
                std::fprintf(stderr, "col %d cat=%d cnt=%lld/%lld min=%g/%Lg max=%g/%Lg mean=%.17g/%.17Lg sd=%.17g/%.17Lg\n", (int)c, (int)categorical[u], (long long)stats.m_samples(c),
                             (long long)cnt[u], stats.m_min(c), lo[u], stats.m_max(c), hi[u], stats.m_mean(c), mean[u], stats.m_stdev(c), sdev[u]);
            }
            statsOK = statsOK && stats.m_samples(c) == cnt[u] && stats.m_min(c) == static_cast<double>(lo[u]) && stats.m_max(c) == static_cast<double>(hi[u]) &&
                      std::fabs(stats.m_mean(c) - mean[u]) <= 1e-12L * mag && std::fabs(stats.m_stdev(c) - sdev[u]) <= 1e-6L * std::max(sdev[u], 1e-12L * mag) + 64 * 2.3e-16L * mag; // (+ the rounding of the values themselves)
        }
        if (!categorical[u])
        {
            statsOK = statsOK && stats_match(stats, c, refs[u]); // (single-sample and all-missing columns as well)
        }
    }
    // ... of the targets (continuous targets; categorical targets are never rescaled: checked below)
    bool targetStatsOK = tstats.m_min.size() == osize;
    std::vector<ref_t> trefs;
    for (tensor_size_t k = 0; k < osize; ++k)
    {
        trefs.push_back(make_ref(ns, [&](const tensor_size_t i) { return rawt2(i, k); }));
        if (target_kind == 0 && targetStatsOK)
        {
            targetStatsOK = stats_match(tstats, k, trefs.back());
            if (!targetStatsOK && std::getenv("VERIF_DEBUG") != nullptr)
            {
                const auto& r = trefs.back();
                std::fprintf(stderr, "target %d cnt=%lld/%lld min=%.17g/%.17Lg max=%.17g/%.17Lg mean=%.17g/%.17Lg sd=%.17g/%.17Lg\n", (int)k, (long long)tstats.m_samples(k), (long long)r.cnt,
                             tstats.m_min(k), r.lo, tstats.m_max(k), r.hi, tstats.m_mean(k), r.mean, tstats.m_stdev(k), r.sdev);
            }
        }
    }
    // ... of every continuous feature on its own (scalar_stats_t::make_feature_stats): those of its flattened columns
    bool featureStatsOK = true;
    for (tensor_size_t f = 0; f < dataset.features(); ++f)
    {
        const auto feature = dataset.feature(f);
        if (feature.is_sclass() || feature.is_mclass())
        {
            continue;
        }
        const auto fstats = scalar_stats_t::make_feature_stats(dataset, samples, f, rng.pick(std::vector<tensor_size_t>{1, 4, 50, 1000}));
        tensor_size_t k   = 0;
        for (tensor_size_t c = 0; c < isize; ++c)
        {
            if (dataset.column2feature(c) == f)
            {
                featureStatsOK = featureStatsOK && k < fstats.m_min.size() && stats_match(fstats, k, refs[static_cast<size_t>(c)]);
                ++k;
            }
        }
        featureStatsOK = featureStatsOK && k == fstats.m_min.size() && k == ::nano::size(feature.dims());
    }
    const auto modes = std::vector<scaling_type>{scaling_type::none, scaling_type::mean, scaling_type::minmax, scaling_type::standard};
    bool roundtripOK = true, advertisedOK = true, categoricalOK = true, missingOK = true, targetScalingOK = true;
    for (const auto mode : modes)
    {
        auto scaled = raw;
        stats.scale(mode, scaled.tensor());
        auto back = scaled;
        stats.upscale(mode, back.tensor());
        for (tensor_size_t c = 0; c < isize; ++c)
        {
            const auto  u   = static_cast<size_t>(c);
            const auto  mag = static_cast<double>(std::max<long double>({std::fabs(lo[u]), std::fabs(hi[u]), 1e-300L}));
            std::vector<double> given;
            for (tensor_size_t i = 0; i < ns; ++i)
            {
                if (!std::isfinite(raw(i, c)))
                {
                    missingOK = missingOK && scaled(i, c) == 0.0; // missing values become zero
                    continue;
                }
                if (categorical[u])
                {
                    categoricalOK = categoricalOK && scaled(i, c) == raw(i, c);
                    continue;
                }
                roundtripOK = roundtripOK && std::fabs(back(i, c) - raw(i, c)) <= 1e-9 * mag;
                given.push_back(scaled(i, c));
            }
            if (!categorical[u])
            {
                advertisedOK = advertisedOK && advertised_ok(mode, given, refs[u]);
            }
        }
        // the targets: continuous ones as the inputs, categorical ones untouched by every mode
        auto tscaled = rawt;
        tstats.scale(mode, tscaled.tensor());
        auto tback = tscaled;
        tstats.upscale(mode, tback.tensor());
        const auto tscaled2 = tscaled.reshape(ns, osize);
        const auto tback2   = tback.reshape(ns, osize);
        for (tensor_size_t k = 0; k < osize; ++k)
        {
            const auto&         r = trefs[static_cast<size_t>(k)];
            std::vector<double> given;
            for (tensor_size_t i = 0; i < ns; ++i)
            {
                if (target_kind != 0)
                {
                    targetScalingOK = targetScalingOK && tscaled2(i, k) == rawt2(i, k) && tback2(i, k) == rawt2(i, k);
                    continue;
                }
                targetScalingOK = targetScalingOK && std::fabs(tback2(i, k) - rawt2(i, k)) <= 1e-9 * static_cast<double>(r.mag());
                given.push_back(tscaled2(i, k));
            }
            if (target_kind == 0)
            {
                targetScalingOK = targetScalingOK && advertised_ok(mode, given, r);
            }
        }
    }
    // affine up-scaling of a multi-output linear model
    bool affineOK = true;
    {
        const auto min_ = rng.pick(modes), mout = rng.pick(modes);
        tensor2d_t W(osize, isize);
        tensor1d_t b(osize);
        for (tensor_size_t i = 0; i < W.size(); ++i)
        {
            W(i) = rng.uniform(-3.0, 3.0);
        }
        for (tensor_size_t i = 0; i < osize; ++i)
        {
            b(i) = rng.uniform(-3.0, 3.0);
        }
        auto Wu = W;
        auto bu = b;
        ::nano::upscale(stats, min_, tstats, mout, Wu.tensor(), bu.tensor());
        for (tensor_size_t i = 0; i < ns; ++i)
        {
            bool finite = true;
            for (tensor_size_t c = 0; c < isize; ++c)
            {
                finite = finite && std::isfinite(raw(i, c));
            }
            if (!finite)
            {
                continue;
            }
            tensor2d_t x(1, isize);
            for (tensor_size_t c = 0; c < isize; ++c)
            {
                x(0, c) = raw(i, c);
            }
            auto xs = x;
            stats.scale(min_, xs.tensor());
            tensor4d_t ys(make_dims(1, osize, 1, 1)), yr(make_dims(1, osize, 1, 1));
            linear::predict(xs, W, b, ys.tensor());
            tstats.upscale(mout, ys.tensor());
            linear::predict(x, Wu, bu, yr.tensor());
            for (tensor_size_t t = 0; t < osize; ++t)
            {
                double magnitude = std::fabs(bu(t)) + std::fabs(ys(t)) + 1e-300;
                for (tensor_size_t c = 0; c < isize; ++c)
                {
                    magnitude += std::fabs(Wu(t, c) * x(0, c));
                }
                affineOK = affineOK && std::fabs(ys(t) - yr(t)) <= 1e-9 * magnitude;
            }
        }
    }
    // what the iterators deliver: inputs and targets scaled independently of whether they are cached (or too large for the given budget),
    // of the batch size, of the kind of loop and of the scaling modes used before - the raw values scaled with the iterator's own
    // statistics (same kernels: compared to 1e-12), missing inputs as zeros
    bool iteratorOK = true, cacheOK = true;
    for (int variant = 0; variant < 2; ++variant)
    {
        const auto mode = rng.pick(modes), other = rng.pick(modes);
        auto       it   = flatten_iterator_t{dataset, samples};
        it.batch(rng.pick(std::vector<tensor_size_t>{1, 2, 7, 64, 1000}));
        const auto all   = std::numeric_limits<tensor_size_t>::max();
        const auto needx = static_cast<tensor_size_t>(sizeof(scalar_t)) * ns * isize, needt = static_cast<tensor_size_t>(sizeof(scalar_t)) * ns * osize;
        const auto small = [&](const tensor_size_t need) { return rng.pick(std::vector<tensor_size_t>{0, 1, need / 2, need - 1}); };
        switch (rng.range(0, 7))
        {
        case 6: // cached with another scaling mode, the mode changed WITHOUT caching again: the loops deliver the values of the new mode
            it.scaling(other);
            it.cache_flatten(all);
            it.cache_targets(all);
            it.scaling(mode);
            break;
        case 7: // ... the same, then a budget that is too small for caching again
            it.scaling(other);
            it.cache_flatten(all);
            it.cache_targets(all);
            it.scaling(mode);
            cacheOK = cacheOK && !it.cache_flatten(small(needx));
            cacheOK = cacheOK && !it.cache_targets(small(needt));
            break;
        case 0: // maybe cached
            it.scaling(mode);
            if (rng.coin())
            {
                it.cache_flatten(all);
            }
            if (rng.coin())
            {
                it.cache_targets(all);
            }
            break;
        case 1: // too large to be cached: nothing is cached
            it.scaling(mode);
            cacheOK = cacheOK && !it.cache_flatten(small(needx));
            cacheOK = cacheOK && !it.cache_targets(small(needt));
            break;
        case 2: // cached with another scaling mode, then cached again with the one in use
            it.scaling(other);
            it.cache_flatten(all);
            it.cache_targets(all);
            it.scaling(mode);
            it.cache_flatten(all);
            it.cache_targets(all);
            break;
        case 3: // cached, the scaling mode changed and changed back
            it.scaling(mode);
            it.cache_flatten(all);
            it.cache_targets(all);
            it.scaling(other);
            it.scaling(mode);
            break;
        case 4: // cached, then a budget that is too small
            it.scaling(mode);
            it.cache_flatten(all);
            it.cache_targets(all);
            cacheOK = cacheOK && !it.cache_flatten(small(needx));
            cacheOK = cacheOK && !it.cache_targets(small(needt));
            break;
        default: // nothing cached, the scaling mode changed before the loops
            it.scaling(other);
            it.loop([&](tensor_range_t, size_t, tensor2d_cmap_t) {});
            it.scaling(mode);
            break;
        }
        cacheOK   = cacheOK && it.scaling() == mode;
        auto refx = raw;
        auto reft = rawt;
        it.flatten_stats().scale(mode, refx.tensor());
        it.targets_stats().scale(mode, reft.tensor());
        tensor2d_t gotx(raw.dims()), gotx2(raw.dims());
        tensor4d_t gott(rawt.dims()), gott2(rawt.dims());
        gotx.full(-7.0);
        gotx2.full(-7.0);
        gott.full(-7.0);
        gott2.full(-7.0);
        it.loop(
            [&](tensor_range_t range, size_t, tensor2d_cmap_t inputs, tensor4d_cmap_t targets)
            {
                gotx.slice(range) = inputs;
                gott.slice(range) = targets;
            });
        it.loop([&](tensor_range_t range, size_t, tensor2d_cmap_t inputs) { gotx2.slice(range) = inputs; });
        it.loop([&](tensor_range_t range, size_t, tensor4d_cmap_t targets) { gott2.slice(range) = targets; });
        // tolerance: an iterator may scale with an algebraically equivalent formula, the rounding is then amplified by |value| / spread for
        // near-constant columns (as for the advertised range); categorical and degenerate columns (left as they are): 1e-12
        const auto tolerance = [](const ref_t& r, const bool rescaled)
        {
            if (!rescaled || r.cnt < 2 || !(r.hi - r.lo >= 1e-7L))
            {
                return 1e-12;
            }
            const auto big = std::max<long double>(std::fabs(r.lo), std::fabs(r.hi));
            return static_cast<double>(1e-9L + 64 * 2.3e-16L * big / (r.hi - r.lo));
        };
        const auto close = [](const double got, const double ref, const double tol) { return std::fabs(got - ref) <= tol * (1.0 + std::fabs(ref)); };
        for (tensor_size_t i = 0; i < raw.size(); ++i)
        {
            const auto c   = static_cast<size_t>(i % isize);
            const auto tol = tolerance(refs[c], !categorical[c]);
            const auto ref = std::isfinite(refx(i)) ? refx(i) : 0.0;
            iteratorOK     = iteratorOK && close(gotx(i), ref, tol) && close(gotx2(i), ref, tol);
        }
        for (tensor_size_t i = 0; i < rawt.size(); ++i)
        {
            const auto tol = tolerance(trefs[static_cast<size_t>(i % osize)], target_kind == 0);
            iteratorOK     = iteratorOK && (!std::isfinite(reft(i)) || (close(gott(i), reft(i), tol) && close(gott2(i), reft(i), tol)));
        }
        // ... and the iterator's statistics are those of the samples it was given
        for (tensor_size_t c = 0; c < isize; ++c)
        {
            iteratorOK = iteratorOK && it.flatten_stats().m_samples(c) == stats.m_samples(c) &&
                         (stats.m_samples(c) == 0 || (it.flatten_stats().m_min(c) == stats.m_min(c) && it.flatten_stats().m_max(c) == stats.m_max(c)));
            iteratorOK = iteratorOK && (categorical[static_cast<size_t>(c)] || stats_match(it.flatten_stats(), c, refs[static_cast<size_t>(c)]));
        }
        iteratorOK = iteratorOK && it.targets_stats().m_min.size() == osize;
        for (tensor_size_t k = 0; k < osize && iteratorOK; ++k)
        {
            if (target_kind == 0)
            {
                iteratorOK = stats_match(it.targets_stats(), k, trefs[static_cast<size_t>(k)]);
            }
            else
            {
                // categorical targets are delivered as they are
                for (tensor_size_t i = 0; i < ns; ++i)
                {
                    iteratorOK = iteratorOK && gott.reshape(ns, osize)(i, k) == rawt2(i, k) && gott2.reshape(ns, osize)(i, k) == rawt2(i, k);
                }
            }
        }
    }
    vt::put(vt::J("Float").i("case", icase).i("rows", n).i("listed", ns).i("columns", isize).i("outputs", osize).i("targetKind", target_kind).b("statsOK", statsOK).b(
        "roundtripOK", roundtripOK).b("advertisedOK", advertisedOK).b("categoricalOK", categoricalOK).b("missingOK", missingOK).b("affineOK", affineOK).b(
        "iteratorOK", iteratorOK).b("tableOK", tableOK).b("targetStatsOK", targetStatsOK).b("targetScalingOK", targetScalingOK).b("featureStatsOK", featureStatsOK).b(
        "cacheOK", cacheOK));
}
} // namespace

int main(int argc, char* argv[])
{
    if (argc < 4)
    {
        std::fprintf(stderr, "usage: scaling_driver <out.ndjson> <seed> <cases>\n");
        return 2;
    }
    vt::Trace::get().open(argv[1]);
    vt::Rng    rng(static_cast<uint64_t>(std::atoll(argv[2])));
    const auto cases = std::atoll(argv[3]);
    for (int64_t i = 0; i < cases; ++i)
    {
        try
        {
            scale_case(rng, i);
            float_case(rng, i);
        }
        catch (const std::exception& e)
        {
            vt::put(vt::J("Abort").s("why", e.what()).i("case", i));
        }
    }
    vt::put(vt::J("Affine").i("case", -1).a("predRaw", std::vector<int64_t>{}).a("predUp", std::vector<int64_t>{}).b("exactSame", true));
    return 0;
}
