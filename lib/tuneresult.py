"""TuneResult.tla (ml::result_t: trials, slots, optimum, closest trial): exhaustive TLC run + replay of every edge of the state graph
against a real ml::result_t. Used by C13 (optimum / slot clauses) and relevant to C18 (warm starts read only finished slots)."""
import os

import common
import dot
from common import CheckError

SPECDIR = os.path.join(common.SPEC, "tuner")


def run(rep, pid, tier):
    work = common.workdir(pid + "result")
    exe = common.build_harness("result_driver")["result_driver"]
    dotfile = os.path.join(work, "result.dot")
    r = common.tlc("TuneResult", "TuneResult.cfg", SPECDIR, workers=4, timeout=1800, extra=["-dump", "dot,actionlabels", dotfile])
    rep.add_tlc(r, "TuneResult.tla (ml::result_t: all histories of <= 3 trials x 2 folds)")
    if not r.ok:
        if r.invariant_violated or r.property_violated:
            rep.violation("TuneResult.tla violates %s" % (r.invariant_violated or "an action property"), payload=r.out[-4000:])
            return
        raise CheckError("TLC failed on TuneResult.tla:\n" + r.out[-3000:])
    g = dot.Graph(dotfile)
    pred = g.bfs_tree()
    folds, grid = 2, 3

    def expected(s):
        trials = len(s["params"])
        vals = " ".join(str(s["vals"][t][f]) for t in range(trials) for f in range(folds))
        closest = " ".join(str(s["closest"][p][m]) for p in range(grid) for m in range(trials + 1))
        return "E %d %d %s %s" % (trials, s["opt"], vals, closest)

    def step(lab, v):
        name, args = dot.Graph.action(lab)
        if name == "Add":
            ps = args[0] if isinstance(args[0], (list, tuple)) else args
            op = "A %d %s" % (len(ps), " ".join(str(p) for p in ps))
        else:
            op = "S %d %d %d" % (args[0] - 1, args[1] - 1, args[2])
        return op + "\n" + expected(g.nodes[v])

    plan = os.path.join(work, "result_plan.txt")
    with open(plan, "w") as f:
        for a, b, lab in g.edges:
            path = g.path_to(pred, a)
            steps = [step(l, v) for _, l, v in path] + [step(lab, b)]
            f.write("P %d %d %d\n%s\n" % (folds, grid, len(steps), "\n".join(steps)))
    out = os.path.join(work, "result_replay.ndjson")
    rc, o, _ = common.run([exe, plan, out], timeout=1800, check=False)
    recs = common.read_ndjson(out) if os.path.exists(out) else []
    summ = [x for x in recs if x["e"] == "Summary"]
    if rc != 0 or not summ:
        rep.violation("tuning-result replay driver crashed (rc=%d)" % rc, payload={"output": o[-3000:]})
        return
    for m in [x for x in recs if x["e"] == "Mismatch"][:5]:
        rep.violation("ml::result_t %s deviates from TuneResult.tla: impl=%s spec=%s" % (m["what"], m["impl"], m["spec"]), payload=m)
    if not rep.violations and summ[0]["paths"] != len(g.edges):
        raise CheckError("tuning-result replay: %d of %d paths executed" % (summ[0]["paths"], len(g.edges)))
    rep.add(tune_result_edges_replayed=len(g.edges), tune_result_states=len(g.nodes), tune_result_comparisons=summ[0]["compared"])
