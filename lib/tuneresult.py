"""TuneResult.tla (ml::result_t: trials, slots, optimum, closest trial): exhaustive TLC run + replay of every edge of the state graph
against a real ml::result_t. Used by C13 (optimum / slot clauses) and relevant to C18 (warm starts read only finished slots)."""
import os
from concurrent.futures import ThreadPoolExecutor

import common
import dot
from common import CheckError

SPECDIR = os.path.join(common.SPEC, "tuner")


# (configuration, folds, number of grid points, plan header, header argument, label):  the second one has TWO hyper-parameters (3 x 3 grid,
# closest trial by Euclidean distance - where the city-block distance would choose differently) and one fold / one value to stay small
CONFIGS = [("TuneResult.cfg", 2, 3, "P", 3, "all histories of <= 3 trials x 2 folds, one hyper-parameter"),
           ("TuneResult_2d.cfg", 1, 9, "Q", 3, "all histories of <= 3 trials, two hyper-parameters on a 3 x 3 grid")]


def run(rep, pid, tier):
    work = common.workdir(pid + "result")
    exe = common.build_harness("result_driver")["result_driver"]
    with ThreadPoolExecutor(len(CONFIGS)) as ex:
        outcomes = list(ex.map(lambda c: run_config(work, exe, *c), CONFIGS))
    edges = states = compared = 0
    for r, label, violations, error, stats in outcomes:
        rep.add_tlc(r, "TuneResult.tla (ml::result_t: %s)" % label)
        for text, payload in violations:
            rep.violation(text, payload=payload)
        if error and not rep.violations:
            raise CheckError(error)
        edges, states, compared = edges + stats[0], states + stats[1], compared + stats[2]
    rep.add(tune_result_edges_replayed=edges, tune_result_states=states, tune_result_comparisons=compared)


def run_config(work, exe, cfg, folds, grid, header, harg, label):
    """returns (tlc result, label, [(violation text, payload)], infrastructure error or None, (edges, states, comparisons))"""
    tag = cfg.replace(".cfg", "")
    dotfile = os.path.join(work, tag + ".dot")
    r = common.tlc("TuneResult", cfg, SPECDIR, workers=4 if header == "P" else 2, timeout=1800, extra=["-dump", "dot,actionlabels", dotfile], tag=tag)
    if not r.ok:
        if r.invariant_violated or r.property_violated:
            return r, label, [("TuneResult.tla (%s) violates %s" % (cfg, r.invariant_violated or "an action property"), r.out[-4000:])], None, (0, 0, 0)
        return r, label, [], "TLC failed on TuneResult.tla (%s):\n%s" % (cfg, r.out[-3000:]), (0, 0, 0)
    g = dot.Graph(dotfile)
    pred = g.bfs_tree()

    def expected(s):
        trials = len(s["params"])
        vals = " ".join(str(s["vals"][t][f]) for t in range(trials) for f in range(folds))
        closest = " ".join(str(s["closest"][p][m]) for p in range(grid) for m in range(trials + 1))
        return "E %d %d %s %s" % (trials, s["opt"], vals, closest)

    def step(lab, v):
        name, args = dot.Graph.action(lab)
        if name == "Add":
            ps = args[0] if isinstance(args[0], (list, tuple)) else args
            op = "A %d %s" % (len(ps), " ".join(str(p) for p in ps))
        else:
            op = "S %d %d %d" % (args[0] - 1, args[1] - 1, args[2])
        return op + "\n" + expected(g.nodes[v])

    plan = os.path.join(work, tag + "_plan.txt")
    with open(plan, "w") as f:
        for a, b, lab in g.edges:
            path = g.path_to(pred, a)
            steps = [step(l, v) for _, l, v in path] + [step(lab, b)]
            f.write("%s %d %d %d\n%s\n" % (header, folds, harg, len(steps), "\n".join(steps)))
    out = os.path.join(work, tag + "_replay.ndjson")
    rc, o, _ = common.run([exe, plan, out], timeout=1800, check=False)
    recs = common.read_ndjson(out) if os.path.exists(out) else []
    summ = [x for x in recs if x["e"] == "Summary"]
    if rc != 0 or not summ:
        return r, label, [("tuning-result replay driver crashed (rc=%d, %s)" % (rc, cfg), {"output": o[-3000:]})], None, (0, 0, 0)
    violations = [("ml::result_t %s deviates from TuneResult.tla (%s): impl=%s spec=%s" % (m["what"], cfg, m["impl"], m["spec"]), m)
                  for m in [x for x in recs if x["e"] == "Mismatch"][:5]]
    error = None
    if not violations and summ[0]["paths"] != len(g.edges):
        error = "tuning-result replay (%s): %d of %d paths executed" % (cfg, summ[0]["paths"], len(g.edges))
    return r, label, violations, error, (len(g.edges), len(g.nodes), summ[0]["compared"])
