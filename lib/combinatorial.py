"""Combinatorial.tla (the odometer behind the tuners' 3^d neighbourhoods): (M) TLC checks rank order, one step per call, bounded work and
termination of the transcribed operator++ for every count vector of the configuration; (R) the deterministic behaviour TLC dumps for
every count vector is replayed on the real nano::combinatorial_iterator_t (three index types) and the sequences must be equal."""
import os

import common
import dot
import trace
from common import CheckError

SPECDIR = os.path.join(common.SPEC, "combinatorial")


def run(rep, pid, tier):
    work = common.workdir(pid)
    exe = common.build_harness("combinatorial_driver")["combinatorial_driver"]
    cfg = "Combinatorial.cfg" if tier == "quick" else "Combinatorial_big.cfg"
    dotfile = os.path.join(work, "comb.dot")
    r = common.tlc("Combinatorial", cfg, SPECDIR, workers=4, timeout=1800, extra=["-dump", "dot,actionlabels", dotfile])
    rep.add_tlc(r, "Combinatorial.tla/" + cfg)
    if not r.ok:
        if r.invariant_violated or r.property_violated:
            rep.violation("Combinatorial.tla violates %s" % (r.invariant_violated or "a temporal property"), payload=r.out[-5000:])
            return
        raise CheckError("TLC failed on Combinatorial.tla:\n" + r.out[-3000:])
    g = dot.Graph(dotfile)
    os.remove(dotfile)
    expected = {}
    for n in g.inits:
        s = g.nodes[n]
        counts = tuple(s["counts"])
        combos = 1
        for c in counts:
            combos *= c
        seq, seen, u = [], set(), n
        while u not in seen:
            seen.add(u)
            s = g.nodes[u]
            if s["pc"] == "idle" and s["comb"] < combos and (not seq or seq[-1][0] != s["comb"]):
                seq.append([s["comb"]] + list(s["current"]))
            nxt = g.adj[u]
            if len(nxt) != 1:
                raise CheckError("Combinatorial.tla: state with %d successors (the transcription is deterministic)" % len(nxt))
            u = nxt[0][0]
        expected[counts] = (combos, seq)
    plan = os.path.join(work, "comb_plan.txt")
    with open(plan, "w") as f:
        for counts in expected:
            f.write("C %s\n" % " ".join(str(c) for c in counts))
    out = os.path.join(work, "comb.ndjson")
    rc, o, _ = common.run([exe, "run", plan, out], timeout=900, check=False)
    recs = common.read_ndjson(out) if os.path.exists(out) else []
    if rc != 0 or not recs or recs[-1].get("case") != -1:
        rep.violation("combinatorial replay driver crashed or hung (rc=%d)" % rc, payload={"output": o[-3000:]})
        return
    n = 0
    for x in recs:
        if x["e"] != "Iter":
            continue
        combos, seq = expected[tuple(x["counts"])]
        n += 1
        if x["size"] != combos or x["seq"] != seq or x["end"] != combos or x["after"] != combos or x["valid_after"]:
            # deviation from the transcription. C13 itself needs less of the odometer than its exact order: every tuple of the product
            # exactly once (grid points only, none twice, 3^d of them) and an iterator that ends - only a deviation from THAT is a violation
            weak_ok = (x["size"] == combos and len(x["seq"]) == combos and not x["valid_after"]
                       and sorted(t[1:] for t in x["seq"]) == sorted(t[1:] for t in seq))
            if weak_ok:
                ndev = rep.coverage.get("combinatorial_deviations_from_transcription", 0) + 1
                rep.coverage["combinatorial_deviations_from_transcription"] = ndev
                if ndev == 1:
                    rep.coverage.setdefault("notes", []).append(
                        "combinatorial_iterator_t enumerates every tuple exactly once but not as Combinatorial.tla transcribes it (order / index): "
                        "counts %s sequence %s" % (x["counts"], str(x["seq"])[:300]))
                continue
            rep.violation("combinatorial_iterator_t<%s> over counts %s does not enumerate every tuple exactly once (Combinatorial.tla): size %s (spec %d), sequence %s (spec %s), "
                          "index after the loop %s and after one more call %s (spec %d)"
                          % (x["type"], x["counts"], x["size"], combos, str(x["seq"])[:300], str(seq)[:300], x["end"], x["after"], combos), payload=x)
            if len(rep.violations) > 4:
                break
    if not rep.violations and n != 3 * len(expected):
        raise CheckError("combinatorial replay: %d of %d walks" % (n, 3 * len(expected)))
    rep.add(combinatorial_vectors_replayed=len(expected), combinatorial_walks=n, combinatorial_tuples=sum(len(v[1]) for v in expected.values()))
    # the candidate points of nano::local_search for every centre of small index grids, judged by TLC (NeighTrace.tla)
    nout = os.path.join(work, "neigh.ndjson")
    rc, o, _ = common.run([exe, "neigh", nout], timeout=120, check=False)
    nrecs = common.read_ndjson(nout) if os.path.exists(nout) else []
    if rc != 0 or not nrecs or nrecs[-1].get("case") != -1:
        rep.violation("local_search driver crashed or hung (rc=%d)" % rc, payload={"output": o[-3000:]})
    else:
        nrecs = [x for x in nrecs if x["e"] == "Neigh"]
        acc, rejects, _ = trace.validate_independent("NeighTrace", "NeighTrace.cfg", os.path.join(common.SPEC, "tuner"), nrecs, nout + ".tlc", tag="c13n")
        for ev in rejects:
            rep.violation("local_search returns points outside the grid / the 3^d neighbourhood, or a point twice: %s" % str(ev)[:500], payload=ev)
        if not rep.violations and acc < 1000:
            raise CheckError("local_search replay: only %d neighbourhoods" % acc)
        rep.add(local_search_neighbourhoods_validated=acc)
    # observation outside the listed properties (DESIGN 9.8): on counts = (1, .., 1) the transcription has a lasso (TLC: Terminates violated)
    # and the real operator++ does not return; the tuners only ever use counts = (3, .., 3)
    r = common.tlc("Combinatorial", "Combinatorial_allones.cfg", SPECDIR, workers=1, timeout=300)
    lasso = bool(r.property_violated)
    rc, _, _ = common.run(["timeout", "3", exe, "hang", "2"], timeout=30, check=False)
    rep.coverage["combinatorial_all_ones"] = {"tlc_finds_nonterminating_call": lasso, "real_iterator_hangs": rc == 124,
                                              "note": "observation outside C13: the tuners never build this count vector"}
