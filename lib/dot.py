"""Parser for TLC's `-dump dot,actionlabels` state graphs: nodes carry the state as a conjunction of `var = value`,
edges carry the action name with its arguments (e.g. `Done(1,0)`). TLA+ values are converted to Python values:
integers, strings, booleans, tuples (<<..>>), frozensets ({..}), dicts ([a |-> v] records and (k :> v @@ ..) functions)."""
import collections
import re


class _P:
    def __init__(self, s):
        self.s, self.i = s, 0

    def ws(self):
        while self.i < len(self.s) and self.s[self.i] in " \t\n\r":
            self.i += 1

    def peek(self, t):
        self.ws()
        return self.s.startswith(t, self.i)

    def eat(self, t):
        self.ws()
        if not self.s.startswith(t, self.i):
            raise ValueError("expected %r at %d in %r" % (t, self.i, self.s[max(0, self.i - 20):self.i + 20]))
        self.i += len(t)

    def value(self):
        self.ws()
        s = self.s
        if self.peek("<<"):
            self.eat("<<")
            out = []
            if self.peek(">>"):
                self.eat(">>")
                return tuple(out)
            while True:
                out.append(self.value())
                if self.peek(","):
                    self.eat(",")
                else:
                    self.eat(">>")
                    return tuple(out)
        if self.peek("{"):
            self.eat("{")
            out = []
            if self.peek("}"):
                self.eat("}")
                return frozenset()
            while True:
                out.append(self.value())
                if self.peek(","):
                    self.eat(",")
                else:
                    self.eat("}")
                    return frozenset(_hashable(x) for x in out)
        if self.peek("["):
            self.eat("[")
            out = {}
            while True:
                self.ws()
                m = re.compile(r"\w+").match(s, self.i)
                key = m.group(0)
                self.i = m.end()
                self.eat("|->")
                out[key] = self.value()
                if self.peek(","):
                    self.eat(",")
                else:
                    self.eat("]")
                    return out
        if self.peek("("):
            self.eat("(")
            out = {}
            while True:
                k = self.value()
                self.eat(":>")
                out[_hashable(k)] = self.value()
                if self.peek("@@"):
                    self.eat("@@")
                else:
                    self.eat(")")
                    return out
        if self.peek('"'):
            self.i += 1
            j = self.i
            while s[j] != '"':
                j += 2 if s[j] == "\\" else 1
            v = s[self.i:j]
            self.i = j + 1
            return v
        m = re.compile(r"-?\d+").match(s, self.i)
        if m:
            self.i = m.end()
            return int(m.group(0))
        m = re.compile(r"\w+").match(s, self.i)
        if m:
            self.i = m.end()
            w = m.group(0)
            return True if w == "TRUE" else False if w == "FALSE" else w
        raise ValueError("cannot parse TLA value at %d: %r" % (self.i, s[self.i:self.i + 40]))


def _hashable(x):
    if isinstance(x, dict):
        return tuple(sorted((k, _hashable(v)) for k, v in x.items()))
    if isinstance(x, (list, tuple)):
        return tuple(_hashable(v) for v in x)
    return x


def parse_value(text):
    p = _P(text)
    v = p.value()
    p.ws()
    if p.i != len(text):
        raise ValueError("trailing text in TLA value: %r" % text[p.i:])
    return v


def parse_state(label):
    text = label.replace('\\"', '"').replace("\\\\", "\\")
    st = {}
    # one conjunct per variable; TLC's pretty printer may break a long value over several lines (literal \n + indentation)
    for part in re.split(r"\\n(?=/\\)", text):
        part = part.strip()
        m = re.match(r"/\\\s*(\w+) = (.*)$", part, re.S)
        if m:
            st[m.group(1)] = parse_value(re.sub(r"\\n\s*", " ", m.group(2)))
    return st


_node_re = re.compile(r'^(-?\d+) \[label="((?:[^"\\]|\\.)*)"(,style = filled)?(,tooltip=.*)?\];?$')
_edge_re = re.compile(r'^(-?\d+) -> (-?\d+) \[label="((?:[^"\\]|\\.)*)"')


class Graph:
    def __init__(self, path):
        self.nodes, self.edges, self.inits = {}, [], []
        with open(path) as f:
            for line in f:
                line = line.rstrip("\n")
                m = _edge_re.match(line)
                if m:
                    self.edges.append((m.group(1), m.group(2), m.group(3)))
                    continue
                m = _node_re.match(line)
                if m:
                    if m.group(1) not in self.nodes:
                        self.nodes[m.group(1)] = parse_state(m.group(2))
                    if m.group(3) and m.group(1) not in self.inits:
                        self.inits.append(m.group(1))
        self.adj = collections.defaultdict(list)
        for a, b, lab in self.edges:
            self.adj[a].append((b, lab))

    @staticmethod
    def action(label):
        """'Done(1,0)' -> ('Done', [1, 0]);  arguments are TLA values"""
        m = re.match(r"^(\w+)(?:\((.*)\))?$", label.replace('\\"', '"'))
        if not m:
            return label, []
        if m.group(2) is None or m.group(2) == "":
            return m.group(1), []
        return m.group(1), list(parse_value("<<" + m.group(2) + ">>"))

    def bfs_tree(self):
        pred = {i: None for i in self.inits}
        q = collections.deque(self.inits)
        while q:
            u = q.popleft()
            for v, lab in self.adj[u]:
                if v not in pred:
                    pred[v] = (u, lab)
                    q.append(v)
        return pred

    def path_to(self, pred, u):
        p = []
        while pred[u] is not None:
            pu, lab = pred[u]
            p.append((pu, lab, u))
            u = pu
        return list(reversed(p))
