#!/usr/bin/env python3
"""Shared machinery of the libnano TLA+ verification framework: builds of /repo (with hooks), harness builds,
TLC runs, evidence files, known findings, violation reporting."""
import fcntl
import json
import os
import re
import shlex
import shutil
import subprocess
import sys
import time

VERIF = os.path.dirname(os.path.dirname(os.path.abspath(__file__)))
REPO = os.environ.get("VERIF_REPO", "/repo")
BUILD = os.environ.get("VERIF_BUILD") or os.path.join(VERIF, ".build")
SPEC = os.path.join(VERIF, "spec")
HARNESS = os.path.join(VERIF, "harness")
EVIDENCE = os.environ.get("VERIF_EVIDENCE") or os.path.join(VERIF, "evidence")
REPLAYS = os.environ.get("VERIF_REPLAYS") or os.path.join(VERIF, "replays")
NCPU = os.cpu_count() or 4

FLAVOURS = {
    # same optimisation level and NDEBUG as the baseline build of the repository, hooks on
    "rel": {"cxx": "-O2 -DNDEBUG -DNANO_VERIF -Wno-error", "link": "-s"},
    "asan": {"cxx": "-O1 -g1 -fno-omit-frame-pointer -fsanitize=address,undefined -fno-sanitize-recover=undefined "
                    "-DNDEBUG -DNANO_VERIF -Wno-error",
             "link": "-fsanitize=address,undefined"},
    "tsan": {"cxx": "-O1 -g1 -fsanitize=thread -DNDEBUG -DNANO_VERIF -Wno-error", "link": "-fsanitize=thread"},
}
LIBS = ["linear", "machine", "solver", "program", "function", "core"]


class CheckError(Exception):
    """infrastructure failure (not a property violation)"""


def log(*args):
    print("[verif]", *args, file=sys.stderr, flush=True)


def seed():
    try:
        return int(os.environ.get("VERIF_SEED", "0"))
    except ValueError:
        return 0


def run(cmd, cwd=None, env=None, timeout=None, check=True, capture=True, stdin=None):
    t0 = time.time()
    e = dict(os.environ)
    if env:
        e.update({k: str(v) for k, v in env.items()})
    try:
        p = subprocess.run(cmd, cwd=cwd, env=e, timeout=timeout, stdout=subprocess.PIPE if capture else None,
                           stderr=subprocess.STDOUT if capture else None, text=True, stdin=stdin,
                           shell=isinstance(cmd, str))
    except subprocess.TimeoutExpired as ex:
        out = ex.stdout if isinstance(ex.stdout, str) else (ex.stdout or b"").decode(errors="replace")
        if check:
            raise CheckError("timeout after %ss: %s\n%s" % (timeout, cmd, out[-4000:]))
        return 124, out, time.time() - t0
    if check and p.returncode != 0:
        raise CheckError("command failed (%d): %s\n%s" % (p.returncode, cmd, (p.stdout or "")[-6000:]))
    return p.returncode, p.stdout or "", time.time() - t0


class Lock:
    def __init__(self, name):
        os.makedirs(BUILD, exist_ok=True)
        self.path = os.path.join(BUILD, name + ".lock")

    def __enter__(self):
        self.f = open(self.path, "w")
        fcntl.flock(self.f, fcntl.LOCK_EX)
        return self

    def __exit__(self, *a):
        fcntl.flock(self.f, fcntl.LOCK_UN)
        self.f.close()


# ---------------------------------------------------------------------------------------------------------------------
# builds
def build_repo(flavour="rel"):
    """configure (once) and build the libraries of /repo's *current working tree* with the hooks enabled"""
    fl = FLAVOURS[flavour]
    bdir = os.path.join(BUILD, flavour)
    os.makedirs(bdir, exist_ok=True)
    with Lock("build-" + flavour):
        t0 = time.time()
        if not os.path.exists(os.path.join(bdir, "build.ninja")):
            cmd = ["cmake", "-S", REPO, "-B", ".", "-G", "Ninja", "-DNANO_BUILD_TESTS=OFF", "-DNANO_BUILD_CMD_APP=OFF",
                   "-DCMAKE_BUILD_TYPE=RelWithDebInfo", "-DCMAKE_CXX_FLAGS_RELWITHDEBINFO=",
                   "-DCMAKE_CXX_FLAGS=" + fl["cxx"]]
            # NB: the project runs `git rev-parse HEAD` in the process cwd: the build dir is inside /verif's work tree
            run(cmd, cwd=bdir, timeout=600)
        rc, out, _ = run(["ninja", "-j", str(NCPU)], cwd=bdir, timeout=3000, check=False)
        if rc != 0:
            raise CheckError("build of /repo (%s) failed:\n%s" % (flavour, out[-6000:]))
        log("build %s: %.1fs" % (flavour, time.time() - t0))
    return bdir


def _defines(bdir):
    """project-wide compile definitions (e.g. NANO_HAS_FROM_CHARS_FLOAT) taken from the cmake build"""
    cc = os.path.join(bdir, "compile_commands.json")
    defs = []
    try:
        first = json.load(open(cc))[0]["command"]
        for tok in shlex.split(first):
            if tok.startswith("-D") and tok not in defs and not tok.startswith("-DNANO_VERIF") and tok != "-DNDEBUG":
                defs.append(tok)
    except Exception:  # noqa
        pass
    return defs


def build_harness(names, flavour="rel"):
    """compile harness/<name>.cpp against the flavour's static libraries (ninja with gcc depfiles, so edits of
    /repo headers trigger a re-compilation); returns {name: executable}"""
    if isinstance(names, str):
        names = [names]
    bdir = build_repo(flavour)
    fl = FLAVOURS[flavour]
    hdir = os.path.join(bdir, "h")
    os.makedirs(hdir, exist_ok=True)
    incs = ["-I" + os.path.join(REPO, "include"), "-I" + bdir, "-I" + os.path.join(REPO, "src"),
            "-isystem", "/usr/include/eigen3", "-I" + os.path.join(HARNESS, "common")]
    cxxflags = " ".join(["-std=c++17", fl["cxx"]] + _defines(bdir) + incs)
    libs = " ".join(os.path.join(bdir, "src", "lib%s.a" % l) for l in LIBS)
    with Lock("harness-" + flavour):
        all_names = sorted(set(names) | set(_known_harnesses(hdir)))
        all_names = [n for n in all_names if os.path.exists(os.path.join(HARNESS, n + ".cpp"))]
        lines = ["cxxflags = " + cxxflags,
                 "rule cxx",
                 "  command = ccache g++ $cxxflags -MMD -MF $out.d -c $in -o $out",
                 "  depfile = $out.d", "  deps = gcc", "  description = CXX $out",
                 "rule link",
                 "  command = g++ %s -o $out $in -Wl,--start-group %s -Wl,--end-group -lrapidcheck -lpthread"
                 % (fl["link"], libs),
                 "  description = LINK $out"]
        for n in all_names:
            lines.append("build %s.o: cxx %s" % (n, os.path.join(HARNESS, n + ".cpp")))
            lines.append("build %s: link %s.o | %s" % (n, n, libs))
        with open(os.path.join(hdir, "build.ninja"), "w") as f:
            f.write("\n".join(lines) + "\n")
        t0 = time.time()
        rc, out, _ = run(["ninja", "-j", str(NCPU)] + names, cwd=hdir, timeout=3000, check=False)
        if rc != 0:
            raise CheckError("harness build (%s) failed:\n%s" % (flavour, out[-8000:]))
        log("harness %s %s: %.1fs" % (flavour, ",".join(names), time.time() - t0))
    return {n: os.path.join(hdir, n) for n in names}


def _known_harnesses(hdir):
    try:
        return [f[:-2] for f in os.listdir(hdir) if f.endswith(".o")]
    except OSError:
        return []


# ---------------------------------------------------------------------------------------------------------------------
# TLC
TLC_JAR = "/opt/veriftools/tla/tla2tools.jar:/opt/veriftools/tla/CommunityModules-deps.jar"


class TlcResult:
    def __init__(self, rc, out, wall):
        self.rc, self.out, self.wall = rc, out, wall
        m = re.search(r"(\d+) states generated, (\d+) distinct states found", out)
        self.generated = int(m.group(1)) if m else 0
        self.distinct = int(m.group(2)) if m else 0
        m = re.search(r"The depth of the complete state graph search is (\d+)", out)
        self.depth = int(m.group(1)) if m else 0
        self.finished = "Model checking completed. No error has been found." in out
        self.invariant_violated = re.findall(r"Invariant (\S+) is violated", out)
        self.property_violated = ("Temporal properties were violated" in out) or bool(
            re.findall(r"Action property (\S+) is violated", out)) or bool(re.search(r"Temporal property \S+ was violated", out))
        self.postcondition_violated = "is violated" in out and "ostcondition" in out
        self.deadlock = "Deadlock reached" in out
        self.error = (rc != 0 and not self.finished)
        self.prints = re.findall(r"^(<<.*>>|\".*\")$", out, re.M)

    @property
    def ok(self):
        return self.rc == 0 and self.finished

    def coverage(self):
        """per-action (taken, generated) counts from -coverage output"""
        cov = {}
        for m in re.finditer(r"^<(\w+) line \d+, col \d+ to line \d+, col \d+ of module (\w+)>: (\d+):(\d+)", self.out, re.M):
            cov[m.group(1)] = (int(m.group(3)), int(m.group(4)))
        return cov


def tlc(module, cfg, specdir, env=None, workers="auto", timeout=1200, extra=None, heap="8g", deque=False, tag=None, props=None):
    """run TLC on specdir/module.tla with cfg; own metadir; output returned parsed"""
    tag = tag or (module + "_" + os.path.splitext(os.path.basename(cfg))[0])
    meta = os.path.join(BUILD, "tlc", "%s_%d" % (tag, os.getpid()))
    shutil.rmtree(meta, ignore_errors=True)
    os.makedirs(meta, exist_ok=True)
    jopts = ["-XX:+UseParallelGC", "-Xss64m", "-Xmx" + heap, "-Djava.io.tmpdir=" + meta]   # TLC's scratch directories stay in the metadir
    if deque:
        jopts.append("-Dtlc2.tool.queue.IStateQueue=StateDeque")
    for p in (props or []):
        jopts.append("-D" + p)
    cmd = ["java"] + jopts + ["-cp", TLC_JAR, "tlc2.TLC", "-workers", str(workers), "-metadir", meta,
                              "-config", cfg, "-noGenerateSpecTE"]
    if extra:
        cmd += list(extra)
    cmd.append(module + ".tla")
    rc, out, wall = run(cmd, cwd=specdir, env=env, timeout=timeout, check=False)
    shutil.rmtree(meta, ignore_errors=True)
    return TlcResult(rc, out, wall)


def apalache(module, specdir, args, timeout=900, tag=None):
    """run apalache-mc check on specdir/module.tla; returns ("ok" | "violation" | "tool_error", output). Output directories
    live under .build/ (never inside spec/)."""
    out_dir = os.path.join(BUILD, "apalache", "%s_%d" % (tag or module, os.getpid()))
    shutil.rmtree(out_dir, ignore_errors=True)
    os.makedirs(out_dir, exist_ok=True)
    cmd = ["apalache-mc", "check", "--out-dir=" + out_dir, "--run-dir=" + os.path.join(out_dir, "run")] + list(args) + [module + ".tla"]
    rc, out, _ = run(cmd, cwd=specdir, timeout=timeout, check=False)
    shutil.rmtree(out_dir, ignore_errors=True)
    if "The outcome is: NoError" in out and rc == 0:
        return "ok", out
    if "The outcome is: Error" in out and rc == 12:
        return "violation", out
    return "tool_error", out


def inductive(rep, module, specdir, cinit="CInit", init="Init", indinit="IndInit", indinv="IndInv", safety="Safety", what=""):
    """Apalache: Init => IndInv, IndInv /\\ Next => IndInv', IndInv => Safety (unbounded). A violation is a violation of the design
    model; a tool error is only recorded (the TLC runs decide the bounded model either way)."""
    steps = [("init", ["--cinit=" + cinit, "--init=" + init, "--inv=" + indinv, "--length=0"]),
             ("step", ["--cinit=" + cinit, "--init=" + indinit, "--inv=" + indinv, "--length=1"]),
             ("safety", ["--cinit=" + cinit, "--init=" + indinit, "--inv=" + safety, "--length=0"])]
    res = {}
    for name, args in steps:
        st, out = apalache(module, specdir, args, tag=module + "_" + name)
        res[name] = st
        if st == "violation":
            rep.violation("Apalache: %s of %s.tla fails (%s)" % (name, module, what), payload=out[-4000:])
    rep.coverage.setdefault("apalache_inductive", []).append({"module": module, "what": what, "result": res})
    return res


def negative_control(rep, module, cfg, specdir, what):
    """negative control OF THE MODEL (never of the implementation): a deliberately broken configuration must violate an invariant,
    otherwise the invariants would be vacuous. One worker (the first reported invariant must not depend on thread timing), one retry,
    and the outcome is only recorded in the evidence - it can never make a check fail on its own."""
    r = None
    for attempt in range(2):
        r = tlc(module, cfg, specdir, workers=1, timeout=900, tag="%s_neg%d" % (os.path.splitext(cfg)[0], attempt))
        if r.invariant_violated:
            break
    rep.coverage.setdefault("negative_controls", []).append(
        {"what": what, "cfg": cfg, "violated": r.invariant_violated or "", "note": "" if r.invariant_violated else r.out[-300:]})
    return r


def tlc_must_pass(module, cfg, specdir, **kw):
    r = tlc(module, cfg, specdir, **kw)
    if r.rc == 124:
        raise CheckError("TLC timeout on %s/%s" % (module, cfg))
    return r


# ---------------------------------------------------------------------------------------------------------------------
# findings, evidence, violations
def load_findings():
    p = os.path.join(VERIF, "known_findings.json")
    try:
        return json.load(open(p))
    except OSError:
        return {"open": [], "fixed": []}


class Report:
    """collects what a check covered; writes the evidence file and prints VIOLATION / KNOWN-FINDING lines"""

    def __init__(self, pid, tier, level):
        self.pid, self.tier, self.level = pid, tier, level
        self.t0 = time.time()
        self.coverage = {"samples": []}
        self.assumptions = []
        self.violations = []          # (what, replay_path)
        self.known = []
        self.notes = []
        self._findings = [f for f in load_findings().get("open", []) if f.get("property") == pid]

    def add(self, **kw):
        for k, v in kw.items():
            if isinstance(v, (int, float)) and not isinstance(v, bool) and isinstance(self.coverage.get(k), (int, float)):
                self.coverage[k] += v
            elif isinstance(v, list) and isinstance(self.coverage.get(k), list):
                self.coverage[k] += v
            else:
                self.coverage[k] = v

    def sample(self, s, limit=6):
        if len(self.coverage["samples"]) < limit:
            self.coverage["samples"].append(s)

    def assume(self, *texts):
        for t in texts:
            if t not in self.assumptions:
                self.assumptions.append(t)

    def add_tlc(self, r, what):
        self.add(states=r.distinct, transitions=r.generated)
        self.coverage.setdefault("tlc_runs", []).append(
            {"what": what, "distinct": r.distinct, "generated": r.generated, "depth": r.depth, "wall_s": round(r.wall, 1)})

    def violation(self, what, payload=None, signature=None):
        """record a violation; payload (str or json-able) is written to replays/<pid>/ as the replay artefact.
        A violation whose signature matches an `open` entry of known_findings.json is reported as KNOWN-FINDING."""
        for f in self._findings:
            if signature is not None and f.get("signature") == signature:
                if f not in self.known:
                    self.known.append(f)
                return None
        d = os.path.join(REPLAYS, self.pid)
        os.makedirs(d, exist_ok=True)
        path = os.path.join(d, "%s_%d_%d.json" % (self.tier, int(self.t0), len(self.violations)))
        with open(path, "w") as f:
            json.dump({"property": self.pid, "what": what, "seed": seed(), "tier": self.tier, "payload": payload}, f,
                      indent=1, default=str)
        self.violations.append((what, path))
        log("violation:", what)
        return path

    def finish(self):
        cov = self.coverage
        if not cov["samples"]:
            cov["samples"] = ["(no sample recorded)"]
        ev = {"property_id": self.pid, "tier": self.tier, "seed": seed(), "level": self.level, "coverage": cov,
              "assumptions": self.assumptions, "wall_s": round(time.time() - self.t0, 2),
              "violations": len(self.violations)}
        if self.known:
            ev["known_findings_reported"] = [f.get("signature") for f in self.known]
        os.makedirs(EVIDENCE, exist_ok=True)
        tmp = os.path.join(EVIDENCE, self.pid + ".json.tmp")
        with open(tmp, "w") as f:
            json.dump(ev, f, indent=1, default=str)
            f.write("\n")
        os.replace(tmp, os.path.join(EVIDENCE, self.pid + ".json"))
        for f in self.known:
            print("KNOWN-FINDING: property=%s %s" % (self.pid, f.get("what", f.get("signature"))), flush=True)
        for what, path in self.violations[:20]:
            print("VIOLATION property=%s replay=%s" % (self.pid, path), flush=True)
            print("  (%s)" % what, flush=True)
        return 1 if self.violations else 0


def read_ndjson(path):
    out = []
    with open(path) as f:
        for line in f:
            line = line.strip()
            if line:
                out.append(json.loads(line))
    return out


def write_ndjson(path, records):
    with open(path, "w") as f:
        for r in records:
            f.write(json.dumps(r, separators=(",", ":")) + "\n")


def workdir(pid):
    """scratch directory of one run of one check: private to the process (two runs of the same check may overlap), removed at exit;
    directories left behind by runs that were killed are swept when they are older than a day"""
    import atexit
    root = os.path.join(BUILD, "work")
    os.makedirs(root, exist_ok=True)
    now = time.time()
    for name in os.listdir(root):
        path = os.path.join(root, name)
        try:
            if now - os.path.getmtime(path) > 86400:
                shutil.rmtree(path, ignore_errors=True)
        except OSError:
            pass
    d = os.path.join(root, "%s_%d" % (pid, os.getpid()))
    shutil.rmtree(d, ignore_errors=True)
    os.makedirs(d, exist_ok=True)
    if not os.environ.get("VERIF_KEEP_WORK"):
        atexit.register(shutil.rmtree, d, True)
    # the library writes one log file per (trial, fold) of every fit into std::filesystem::temp_directory_path(): keep them in the scratch
    # directory of the run (removed with it) instead of flooding /tmp
    tmp = os.path.join(d, "tmp")
    os.makedirs(tmp, exist_ok=True)
    os.environ["TMPDIR"] = tmp
    return d
