#!/usr/bin/env python3
"""regenerates MANIFEST.json from the table below (one source of truth for the claimed checks)"""
import json
import os
import subprocess

ROOT = os.path.dirname(os.path.dirname(os.path.abspath(__file__)))

CLAIMS = {
    "C17": dict(
        category="model_checking", design_ref="DESIGN.md §3 C17, §5, appendix C",
        technique="TLC exhaustive model checking of ThreadPool.tla + TLC validation of hook-recorded event traces (ThreadPoolTrace.tla)",
        text="Every interleaving of the pool protocol (<=3 workers, <=2 callers, <=4 tasks, throwing tasks, spurious wake-ups, raw "
             "enqueue, concurrent shutdown) is explored by TLC for exactly-once execution, tiling, worker-id exclusivity, "
             "return-after-completion, re-throw, deadlock freedom and (under fairness) termination; every observed execution of "
             "the real pool_t (1-16 workers, 1-4 callers, seeded delays at every synchronisation point) is validated by TLC "
             "against the same actions with all invariants evaluated at every step.",
        note="Trusted: hook placement at the linearization points (add-only, guard NANO_VERIF); std::mutex/condition_variable "
             "semantics as modelled; blocking inside wait() is inferred, lost wake-ups on the implementation are observed only "
             "as a watchdog Timeout; TSan run is auxiliary (thorough)."),
    "C19": dict(
        category="model_checking", design_ref="DESIGN.md §3 C19",
        technique="TLC state graph of Parameter.tla replayed edge by edge on real parameter_t objects + TLC validation of a factory sweep trace (ConfigurableTrace.tla)",
        text="The full reachable state graph of the parameter specification (6 kinds x all <=/< combinations, half-integer grid with "
             "boundary +-1 ulp, NaN/inf, strings, pairs, enums, reads, write+read) is computed by TLC with the property formulas checked "
             "on it; every one of its ~196k edges and random 6-step walks are executed on real parameter_t objects and the projected "
             "state compared after each step. Every object of the 11 factories is swept (id, defaults in domain, unknown names, clone "
             "equality and independence after re-configuration) and the trace validated by TLC.",
        note="Real kinds are compared through an order embedding of the grid; NaN/inf into integer kinds expects rejection (x86 "
             "conversion), not run under UBSan; real-valued domains of factory objects enter TLC as order ranks."),
    "C11": dict(
        category="model_checking", design_ref="DESIGN.md §3 C11, appendix E",
        technique="TLC state graph of EarlyStopping.tla replayed on the real early_stopping_t (every edge; thorough: all histories) + TLC validation of real gboost/linear fit observations (GBoostFitTrace.tla)",
        text="TLC checks the stop/report/snapshot formulas of the early-stopping monitor on all histories (7-value alphabet, patience "
             "1..4, with/without validation) and the truncation invariants of the boosting loop; every edge of the state graph is "
             "replayed on a real gboost::early_stopping_t (thorough: 14M explicit histories in lock-step with the exported transition "
             "table). Real gboost and linear fits (losses, weak-learner pools, shrinkage/subsample/wscale modes, both tuners, folds 2..5) "
             "are re-computed through the public API per (trial, fold) and for the final model and validated by TLC.",
        note="Equality of stored and recomputed statistics/predictions (1e-11 relative) is computed by the driver and enters TLC as "
             "booleans; TLC decides the slot bookkeeping, rows/learners kept, optimum trial."),
    "C13": dict(
        category="model_checking", design_ref="DESIGN.md §3 C13, appendix B.8",
        technique="TLC exhaustive model checking of Tuner.tla (all landscapes) and MLTune.tla (all schedules) + TLC validation of recorded tuner / ml::tune traces (TunerTrace.tla)",
        text="TLC explores both tuners on every landscape over small grids (1-3 dimensions, ties, non-finite values) for grid-only, "
             "no-repeat, count bound, rejection of non-finite values, sorted result, termination; and all interleavings of the "
             "(trial, fold) tasks of ml::tune for exactly-once callbacks, own-slot storage and confluence. Real runs of both tuners "
             "(grids 2..31, plateaus/ties/corner minima/NaN/inf, max_evals 10..1000) and of ml::tune (folds 2..10, pools of 1..16 "
             "threads with seeded delays) are recorded through the callbacks and validated by TLC.",
        note="Landscape values are small integers; the fold of a callback is identified from the index sets (k-fold splits); the "
             "trace specification requires only what the property states (not the search strategy)."),
    "C15": dict(
        category="fault_enumeration", design_ref="DESIGN.md §3 C15",
        technique="TLC model checking of StreamRead.tla + exhaustive truncation/corruption enumeration on real streams validated by TLC (StreamReadTrace.tla)",
        text="Every strict prefix (all offsets) and every single-byte tensor-payload alteration of a corpus of ~1000 serialised objects "
             "(tensors 10 types x rank 1..5 incl. empty, parameters, features, configured solver/loss/splitter/tuner/line-search, fitted "
             "weak learners, linear and gboost models) is read back through a tracing streambuf; TLC checks every outcome is a rejection, "
             "the full stream is accepted, consumed entirely and observationally identical, and replays the byte-level requests against "
             "the istream semantics. TLC also explores all field programs of the reader model.",
        note="A reduced corpus runs in the ASan/UBSan build (crash / out-of-bounds clause); length fields are not altered; header-byte "
             "alterations only need to survive; round-trip identity is computed by the driver."),
    "C20": dict(
        category="model_checking", design_ref="DESIGN.md §3 C20",
        technique="TLC re-computation of recorded percentile/histogram calls with exact reference operators (OrderStatsTrace.tla), exhaustive over short lists",
        text="TLC evaluates the reference operators of OrderStats.tla (sorted-array percentile with mid-points, counting rule for bins) "
             "against the textual definitions on all lists <=4 over 5 values, and re-computes every recorded call of the real "
             "percentile / median / histogram_t (four constructors) / bin(v) / ml::store_stats: exhaustively all lists of length <=3 "
             "(thorough 4) over a 5-value lattice x thresholds x all lattice queries, plus random lists of up to 500 values with ties, "
             "negatives, duplicate and out-of-range thresholds and non-integer queries.",
        note="Exact lattice: values multiples of 1/4, thresholds and queries of 1/64, percentages and ratios of 1/8; thresholds from "
             "exponents are not re-derived (log/pow); the stdev slot of store_stats is not checked."),
    "C12": dict(
        category="model_checking", design_ref="DESIGN.md §3 C12",
        technique="TLC model checking of the chunking schemes over all permutations (SplitterModel.tla) + TLC evaluation of set predicates on recorded splitter/sampler calls (SplitterTrace.tla)",
        text="TLC shows that for every shuffle of n<=6 indices, every fold count and percentage the two splitting schemes yield disjoint, "
             "sorted, covering parts, partitioning folds with sizes differing by less than k and round-to-nearest training sizes; the set "
             "predicates are then evaluated by TLC on recorded calls of the real splitters: n 2..40 x folds 2..min(n,12) x seeds "
             "(thorough: all 1025; quick: every 64th), all percentages 10..90, random non-contiguous inputs up to 5000, samplers "
             "(with/without replacement, weighted, gboost sampler), same-seed and clone determinism.",
        note="Ball membership is computed by the driver (real-valued norm); the random splitter is enumerated on two full axes rather "
             "than the full product; evidence reports exhaustive only for the stride-1 (thorough) run."),
    "C16": dict(
        category="model_checking", design_ref="DESIGN.md §3 C16, appendix B.6",
        technique="TLC model checking of row-major addressing facts for all small shapes (TensorModel.tla) + TLC re-computation of every recorded view operation on real tensors (TensorTrace.tla, ASan/UBSan build)",
        text="TLC checks for every shape of rank<=4, dims 0..3 (thorough: 0..4 and rank 5) that the offset map is the row-major bijection "
             "and that prefix views and slices address exactly the fully indexed elements as contiguous in-range blocks; every index "
             "tuple, prefix view (tensor/vector/matrix), slice, reshape factorisation (with inferred -1), gather, storage conversion and "
             "summed-area table of all 1800+ shapes rank<=4 dims 0..4 / rank 5 dims 0..3, other scalar types and random shapes up to 1e5 "
             "elements is executed on real tensors under ASan/UBSan and re-computed by TLC.",
        note="The buffer holds its own flat indices (values = addresses); large views are compared by offset, dims, count and a check-sum; "
             "reshape with an inferred dimension next to a zero-sized one (0/0) is excluded."),
    "C08": dict(
        category="model_checking", design_ref="DESIGN.md §3 C08",
        technique="TLC model checking of the drop/shuffle/undo protocol (DatasetModel.tla) + TLC validation of recorded histories of real dataset_t objects with all views re-computed (DatasetTrace.tla, ASan/UBSan build)",
        text="TLC explores every drop/undrop/shuffle/unshuffle history (all permutations) for exactly-that-feature, bijection, "
             "undo-restores and select/flatten agreement; random data sources (12 storage types, class counts 1..300, struct dims up to "
             "3x3x2, arbitrary masks, targets of any kind or absent, 1..200 samples) behind real dataset_t objects with random generator "
             "stacks (4 identity generators, pairwise product, feature subsets, 1..16 threads) are driven through random histories; after "
             "every operation the flattened view, every per-feature view, targets, reported permutations, bookkeeping and the "
             "rejection of out-of-range indices are recorded and re-computed by TLC.",
        note="Stored values are small integers; generated-feature sources come from the descriptors the dataset reports; the gradient "
             "generator is not covered; ASan/UBSan build for the never-read clause."),
}

NOT_YET = "machinery not finished (see DESIGN.md §7: a property is claimed only once its quick check passes and its demo mutations are caught)"


def main():
    props = [json.loads(l)["id"] for l in open(os.path.join(ROOT, "properties.jsonl"))]
    hooks = subprocess.run(["git", "-C", "/repo", "log", "--format=%H %s"], capture_output=True, text=True).stdout.splitlines()
    hook_commits = [l.split()[0] for l in hooks if l.split(" ", 1)[1].startswith("verif:")]
    checks = []
    for pid in props:
        if pid not in CLAIMS:
            continue
        c = CLAIMS[pid]
        checks.append({
            "property_id": pid,
            "quick_cmd": "bin/check %s --tier quick" % pid,
            "thorough_cmd": "bin/check %s --tier thorough" % pid,
            "evidence_file": "/verif/evidence/%s.json" % pid,
            "replay_cmd_template": "bin/check %s --replay {path}" % pid,
            "engine": "tlc",
            "level_claimed": {"category": c["category"], "text": c["text"], "design_ref": c["design_ref"]},
            "level_note": c["note"],
            "technique": c["technique"],
        })
    na = [{"property_id": pid, "reason": NOT_YET} for pid in props if pid not in CLAIMS]
    manifest = {
        "version": 1,
        "setup_cmd": "bin/setup",
        "hooks": {
            "guard": "NANO_VERIF",
            "enable": "lib/common.py:build_repo configures /repo's CMake project into /verif/.build/<flavour> with "
                      "-DCMAKE_CXX_FLAGS='... -DNANO_VERIF' (libraries only) and links the harnesses against it",
            "baseline_off_cmd": "cmake --build /repo/_build -j16 && ctest --test-dir /repo/_build -j8 --timeout 900",
            "source_commits": hook_commits,
            "add_only": True,
        },
        "engines": [{"name": "tlc", "path": "/opt/veriftools/tla/tla2tools.jar",
                     "serves_properties": [c["property_id"] for c in checks],
                     "kind_free_text": "TLA+ specifications under /verif/spec checked with TLC 1.8 (exhaustive BFS, state-graph "
                                       "dumps replayed into the code, ndjson trace validation, exact re-computation of recorded calls)"}],
        "checks": checks,
        "not_applicable": na,
        "notes": "bin/check <ID> --tier quick|thorough [--replay PATH]; known_findings.json lists repaired (fixed:) and open findings.",
    }
    with open(os.path.join(ROOT, "MANIFEST.json"), "w") as f:
        json.dump(manifest, f, indent=1)
        f.write("\n")


if __name__ == "__main__":
    main()
