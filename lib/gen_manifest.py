#!/usr/bin/env python3
"""regenerates MANIFEST.json from the table below (one source of truth for the claimed checks)"""
import json
import os
import subprocess

ROOT = os.path.dirname(os.path.dirname(os.path.abspath(__file__)))

CLAIMS = {
    "C17": dict(
        category="model_checking", design_ref="DESIGN.md §3 C17, §5, appendix C",
        technique="TLC exhaustive model checking of ThreadPool.tla + TLC validation of hook-recorded event traces (ThreadPoolTrace.tla)",
        text="Every interleaving of the pool protocol (<=3 workers, <=2 callers, <=4 tasks, throwing tasks, spurious wake-ups, raw "
             "enqueue, concurrent shutdown) is explored by TLC for exactly-once execution, tiling, worker-id exclusivity, "
             "return-after-completion, re-throw, deadlock freedom and (under fairness) termination; every observed execution of "
             "the real pool_t (1-16 workers, 1-4 callers, seeded delays at every synchronisation point) is validated by TLC "
             "against the same actions with all invariants evaluated at every step.",
        note="Trusted: hook placement at the linearization points (add-only, guard NANO_VERIF); std::mutex/condition_variable "
             "semantics as modelled; blocking inside wait() is inferred, lost wake-ups on the implementation are observed only "
             "as a watchdog Timeout; TSan run is auxiliary (thorough)."),
}

NOT_YET = "machinery not finished (see DESIGN.md §7: a property is claimed only once its quick check passes and its demo mutations are caught)"


def main():
    props = [json.loads(l)["id"] for l in open(os.path.join(ROOT, "properties.jsonl"))]
    hooks = subprocess.run(["git", "-C", "/repo", "log", "--format=%H %s"], capture_output=True, text=True).stdout.splitlines()
    hook_commits = [l.split()[0] for l in hooks if l.split(" ", 1)[1].startswith("verif:")]
    checks = []
    for pid in props:
        if pid not in CLAIMS:
            continue
        c = CLAIMS[pid]
        checks.append({
            "property_id": pid,
            "quick_cmd": "bin/check %s --tier quick" % pid,
            "thorough_cmd": "bin/check %s --tier thorough" % pid,
            "evidence_file": "/verif/evidence/%s.json" % pid,
            "replay_cmd_template": "bin/check %s --replay {path}" % pid,
            "engine": "tlc",
            "level_claimed": {"category": c["category"], "text": c["text"], "design_ref": c["design_ref"]},
            "level_note": c["note"],
            "technique": c["technique"],
        })
    na = [{"property_id": pid, "reason": NOT_YET} for pid in props if pid not in CLAIMS]
    manifest = {
        "version": 1,
        "setup_cmd": "bin/setup",
        "hooks": {
            "guard": "NANO_VERIF",
            "enable": "lib/common.py:build_repo configures /repo's CMake project into /verif/.build/<flavour> with "
                      "-DCMAKE_CXX_FLAGS='... -DNANO_VERIF' (libraries only) and links the harnesses against it",
            "baseline_off_cmd": "cmake --build /repo/_build -j16 && ctest --test-dir /repo/_build -j8 --timeout 900",
            "source_commits": hook_commits,
            "add_only": True,
        },
        "engines": [{"name": "tlc", "path": "/opt/veriftools/tla/tla2tools.jar",
                     "serves_properties": [c["property_id"] for c in checks],
                     "kind_free_text": "TLA+ specifications under /verif/spec checked with TLC 1.8 (exhaustive BFS, state-graph "
                                       "dumps replayed into the code, ndjson trace validation, exact re-computation of recorded calls)"}],
        "checks": checks,
        "not_applicable": na,
        "notes": "bin/check <ID> --tier quick|thorough [--replay PATH]; known_findings.json lists repaired (fixed:) and open findings.",
    }
    with open(os.path.join(ROOT, "MANIFEST.json"), "w") as f:
        json.dump(manifest, f, indent=1)
        f.write("\n")


if __name__ == "__main__":
    main()
