#!/usr/bin/env python3
"""regenerates MANIFEST.json from the table below (one source of truth for the claimed checks)"""
import json
import os
import re
import subprocess

ROOT = os.path.dirname(os.path.dirname(os.path.abspath(__file__)))

CLAIMS = {
    "C17": dict(
        category="model_checking", design_ref="DESIGN.md §3 C17, §5, appendix C",
        technique="TLC exhaustive model checking of ThreadPool.tla + TLC validation of hook-recorded event traces (ThreadPoolTrace.tla)",
        text="Every interleaving of the pool protocol (<=3 workers, <=2 callers, <=4 tasks, throwing tasks, spurious wake-ups, raw "
             "enqueue, concurrent shutdown) is explored by TLC for exactly-once execution, tiling, worker-id exclusivity, "
             "return-after-completion, re-throw, deadlock freedom and (under fairness) termination; every observed execution of "
             "the real pool_t (1-16 workers, 1-4 callers, seeded delays at every synchronisation point) is validated by TLC "
             "against the same actions with all invariants evaluated at every step.",
        note="Trusted: hook placement at the linearization points (add-only, guard NANO_VERIF); std::mutex/condition_variable "
             "semantics as modelled; blocking inside wait() is inferred, lost wake-ups on the implementation are observed only "
             "as a watchdog Timeout; TSan run is auxiliary (thorough)."),
    "C19": dict(
        category="model_checking", design_ref="DESIGN.md §3 C19",
        technique="TLC state graph of Parameter.tla replayed edge by edge on real parameter_t objects + TLC validation of a factory sweep trace (ConfigurableTrace.tla)",
        text="The full reachable state graph of the parameter specification (6 kinds x all <=/< combinations, half-integer grid with "
             "boundary +-1 ulp, NaN/inf, strings, pairs, enums, reads, write+read) is computed by TLC with the property formulas checked "
             "on it; every one of its ~196k edges and random 6-step walks are executed on real parameter_t objects and the projected "
             "state compared after each step. Every object of the 11 factories is swept (id, defaults in domain, unknown names, clone "
             "equality and independence after re-configuration) and the trace validated by TLC.",
        note="Real kinds are compared through an order embedding of the grid; NaN/inf into integer kinds expects rejection (x86 "
             "conversion), not run under UBSan; real-valued domains of factory objects enter TLC as order ranks."),
    "C11": dict(
        category="model_checking", design_ref="DESIGN.md §3 C11, appendix E",
        technique="TLC state graph of EarlyStopping.tla replayed on the real early_stopping_t (every edge; thorough: all histories) + TLC validation of real gboost/linear fit observations (GBoostFitTrace.tla)",
        text="TLC checks the stop/report/snapshot formulas of the early-stopping monitor on all histories (7-value alphabet, patience "
             "1..4, with/without validation) and the truncation invariants of the boosting loop; every edge of the state graph is "
             "replayed on a real gboost::early_stopping_t (thorough: 14M explicit histories in lock-step with the exported transition "
             "table). Real gboost and linear fits (losses, weak-learner pools, shrinkage/subsample/wscale modes, both tuners, folds 2..5) "
             "are re-computed through the public API per (trial, fold) and for the final model and validated by TLC.",
        note="Equality of stored and recomputed statistics/predictions (1e-11 relative) is computed by the driver and enters TLC as "
             "booleans; TLC decides the slot bookkeeping, rows/learners kept, optimum trial."),
    "C13": dict(
        category="model_checking", design_ref="DESIGN.md §3 C13, appendix B.8",
        technique="TLC exhaustive model checking of Tuner.tla (all landscapes), MLTune.tla (all schedules), TuneResult.tla and Combinatorial.tla (transcribed neighbourhood odometer, liveness) + replay of TLC's state graphs on the real result_t / combinatorial_iterator_t + TLC validation of recorded tuner / ml::tune traces (TunerTrace.tla)",
        text="TLC explores both tuners on every landscape over small grids (1-3 dimensions, ties, non-finite values) for grid-only, "
             "no-repeat, count bound, rejection of non-finite values, sorted result, termination; and all interleavings of the "
             "(trial, fold) tasks of ml::tune for exactly-once callbacks, own-slot storage and confluence. Real runs of both tuners "
             "(grids 2..31, plateaus/ties/corner minima/NaN/inf, max_evals 10..1000) and of ml::tune (folds 2..10, pools of 1..16 "
             "threads with seeded delays) are recorded through the callbacks and validated by TLC. The odometer that enumerates the 3^d "
             "neighbours (combinatorial_iterator_t::operator++) is transcribed loop iteration by loop iteration; TLC checks row-major rank "
             "order, exactly one step per call, bounded work and termination for every count vector (<=4 dims x counts <=3; thorough 5 x 4) "
             "and the behaviours it dumps are replayed on the real iterator (three index types); the candidate lists of nano::local_search for every centre of small grids (2457 neighbourhoods) are validated by TLC (NeighTrace.tla).",
        note="Landscape values are small integers; the fold of a callback is identified from the index sets (k-fold splits); the "
             "trace specification requires only what the property states (not the search strategy)."),
    "C15": dict(
        category="fault_enumeration", design_ref="DESIGN.md §3 C15",
        technique="TLC model checking of StreamRead.tla + exhaustive truncation/corruption enumeration on real streams validated by TLC (StreamReadTrace.tla)",
        text="Every strict prefix (all offsets) and every single-byte tensor-payload alteration of a corpus of ~1000 serialised objects "
             "(tensors 10 types x rank 1..5 incl. empty, parameters, features, configured solver/loss/splitter/tuner/line-search, fitted "
             "weak learners, linear and gboost models) is read back through a tracing streambuf; TLC checks every outcome is a rejection, "
             "the full stream is accepted, consumed entirely and observationally identical, and replays the byte-level requests against "
             "the istream semantics. TLC also explores all field programs of the reader model.",
        note="A reduced corpus runs in the ASan/UBSan build (crash / out-of-bounds clause); length fields are not altered; header-byte "
             "alterations only need to survive; round-trip identity is computed by the driver."),
    "C20": dict(
        category="model_checking", design_ref="DESIGN.md §3 C20",
        technique="TLC re-computation of recorded percentile/histogram calls with exact reference operators (OrderStatsTrace.tla), exhaustive over short lists",
        text="TLC evaluates the reference operators of OrderStats.tla (sorted-array percentile with mid-points, counting rule for bins) "
             "against the textual definitions on all lists <=4 over 5 values, and re-computes every recorded call of the real "
             "percentile / median / histogram_t (four constructors) / bin(v) / ml::store_stats: exhaustively all lists of length <=3 "
             "(thorough 4) over a 5-value lattice x thresholds x all lattice queries, plus random lists of up to 500 values with ties, "
             "negatives, duplicate and out-of-range thresholds and non-integer queries.",
        note="Exact lattice: values multiples of 1/4, thresholds and queries of 1/64, percentages and ratios of 1/8; thresholds from "
             "exponents are not re-derived (log/pow); the stdev slot of store_stats is not checked."),
    "C12": dict(
        category="model_checking", design_ref="DESIGN.md §3 C12",
        technique="TLC model checking of the chunking schemes over all permutations (SplitterModel.tla) + TLC evaluation of set predicates on recorded splitter/sampler calls (SplitterTrace.tla)",
        text="TLC shows that for every shuffle of n<=6 indices, every fold count and percentage the two splitting schemes yield disjoint, "
             "sorted, covering parts, partitioning folds with sizes differing by less than k and round-to-nearest training sizes; the set "
             "predicates are then evaluated by TLC on recorded calls of the real splitters: n 2..40 x folds 2..min(n,12) x seeds "
             "(thorough: all 1025; quick: every 64th), all percentages 10..90, random non-contiguous inputs up to 5000, samplers "
             "(with/without replacement, weighted, gboost sampler), same-seed and clone determinism.",
        note="Ball membership is computed by the driver (real-valued norm); the random splitter is enumerated on two full axes rather "
             "than the full product; evidence reports exhaustive only for the stride-1 (thorough) run."),
    "C16": dict(
        category="model_checking", design_ref="DESIGN.md §3 C16, appendix B.6",
        technique="TLC model checking of row-major addressing facts for all small shapes (TensorModel.tla) + TLC re-computation of every recorded view operation on real tensors (TensorTrace.tla, ASan/UBSan build)",
        text="TLC checks for every shape of rank<=4, dims 0..3 (thorough: 0..4 and rank 5) that the offset map is the row-major bijection "
             "and that prefix views and slices address exactly the fully indexed elements as contiguous in-range blocks; every index "
             "tuple, prefix view (tensor/vector/matrix), slice, reshape factorisation (with inferred -1), gather, storage conversion and "
             "summed-area table of all 1800+ shapes rank<=4 dims 0..4 / rank 5 dims 0..3, other scalar types and random shapes up to 1e5 "
             "elements is executed on real tensors under ASan/UBSan and re-computed by TLC.",
        note="The buffer holds its own flat indices (values = addresses); large views are compared by offset, dims, count and a check-sum; "
             "reshape with an inferred dimension next to a zero-sized one (0/0) is excluded."),
    "C08": dict(
        category="model_checking", design_ref="DESIGN.md §3 C08",
        technique="TLC model checking of the drop/shuffle/undo protocol (DatasetModel.tla) + TLC validation of recorded histories of real dataset_t objects with all views re-computed (DatasetTrace.tla, ASan/UBSan build)",
        text="TLC explores every drop/undrop/shuffle/unshuffle history (all permutations) for exactly-that-feature, bijection, "
             "undo-restores and select/flatten agreement; random data sources (12 storage types, class counts 1..300, struct dims up to "
             "3x3x2, arbitrary masks, targets of any kind or absent, 1..200 samples) behind real dataset_t objects with random generator "
             "stacks (4 identity generators, pairwise product, feature subsets, 1..16 threads) are driven through random histories; after "
             "every operation the flattened view, every per-feature view, targets, reported permutations, bookkeeping and the "
             "rejection of out-of-range indices are recorded and re-computed by TLC.",
        note="Stored values are small integers; generated-feature sources come from the descriptors the dataset reports; the gradient "
             "generator is not covered; ASan/UBSan build for the never-read clause."),
    "C02": dict(
        category="exploration", design_ref="DESIGN.md §3 C02, appendix D",
        technique="TLC model checking of SolverLoop.tla and SolverState.tla + replay of every edge of TLC's state graph on a real solver_state_t (SolverStateReplay.tla) + TLC validation of solver runs recorded through a counting wrapper (MinimizerTrace.tla) and of long call histories of solver_state_t (SolverStateTrace.tla)",
        text="TLC explores the outer loops of the line-search and best-state solver families against all evaluation-outcome sequences "
             "(status lives in the returned state, cstate/pstate hand-over, strict-decrease tracking). Runs of all 35 registered solvers on "
             "registered (1..32 dims) and random quadratic / max-of-linear objectives with random x0, epsilon, budgets 10..5000 and "
             "parameters drawn from their domains are recorded through a driver-owned counting function; TLC evaluates on every run: value "
             "and gradient are those of one recorded evaluation (bit-equal), status set, reported counts never above the performed ones (at "
             "every logger line), finiteness, no-worse-than-start, budget overshoot <= 1100 + 8n. The best-state tracker behind the "
             "non-monotonic solvers (update_if_better / update / value_test) has its own model: strict-decrease tracking, gradient of the "
             "stored point, non-finite offers ignored, and the stopping test equal to its declarative meaning (no strict improvement in "
             "the last k calls) for all histories <= 4 over a 3 x 3 lattice; every edge of the graph (118k quick, 1.3M thorough) is applied "
             "to a real solver_state_t in 1 and 3 dimensions, and random histories up to 60 calls (values up to 1e5, 1..8 dims, patience 1..12) "
             "are validated by TLC against the same actions.",
        note="Observation of sampled runs (exploration), not a proof over all inputs; bit-equality, finiteness and the CG_DESCENT allowance "
             "are computed by the driver from the wrapper's records; termination = watchdog; the constrained solvers run through C05's driver (Solve records, also validated by this check)."),
    "C01": dict(
        category="exploration", design_ref="DESIGN.md §3 C01",
        technique="TLC model checking of SolverLoop.tla (ls family) + TLC validation of line-search solver runs (MinimizerTrace.tla: ConvergedIsTruthful, QuadraticSolved)",
        text="At design level TLC shows `converged` can only be stored in a state whose own evaluation passed the gradient test. All 17 "
             "line-search solvers x 4 lsearch0 x 5 lsearchk x (c1,c2) x epsilon 1e-12..1e-2 on the registered smooth functions are run "
             "through the counting wrapper: `converged` implies the gradient test recomputed from the wrapper's own (f, g) of the returned "
             "evaluation; lbfgs/bfgs on random quadratics (kappa <= 1e3, scale 1e-3..1e3, n <= 16, x0 in [-10,10]^n) at epsilon 1e-8 "
             "converge within 1500 evaluations inside the stated accuracy bound.",
        note="That L-BFGS converges that fast is observed per run, not proved; the accuracy bound uses the closed-form minimiser."),
    "C07": dict(
        category="exploration", design_ref="DESIGN.md §3 C07, appendix B.7",
        technique="TLC model checking of the transcribed control flow of three line searches (LineSearch.tla) + TLC validation of recorded searches (LineSearchTrace.tla)",
        text="TLC checks the control flow of backtrack / lemarechal / fletcher against every sequence of predicate outcomes (success only "
             "right after the advertised predicates were evaluated true on the current trial; non-descent refused before any trial). "
             "Searches of the five real strategies (random (c1,c2), interpolation modes, max_iterations, smooth functions and convex "
             "quadratics, perturbed/quasi-Newton/ascent/orthogonal directions, t0 incl. NaN/inf) are recorded through the counting wrapper "
             "and validated: accepted point is a recorded trial at x + t d with finite positive t satisfying the advertised conditions.",
        note="Armijo/Wolfe inequalities are recomputed by the driver with a 64-ulp slack; More-Thuente / CG_DESCENT are held to their "
             "conditions only on convex quadratics with default settings."),
    "C05": dict(
        category="model_checking", design_ref="DESIGN.md §3 C05, appendix B.3",
        technique="TLC model checking of AugLag.tla + TLC exact re-computation of penalty evaluations on the integer lattice (Penalty.tla) + solver return contract",
        text="TLC explores every criterion/validity/closeness sequence of the augmented-Lagrangian outer loop (converged implies the held "
             "best state is feasible within epsilon) and re-computes exactly - values and (sub)gradients of the linear, quadratic and "
             "augmented-Lagrangian penalties, all 11 constraint kinds, feasible-point coincidence - every recorded evaluation on the "
             "integer lattice; runs of the three constrained solvers on random QPs/LPs, boxes and balls are checked for the return "
             "contract (feasibility within epsilon when converged, stored constraint values / KKT tests = recomputed).",
        note="Lattice: integer points/coefficients, rho in {1,2,4,8}, integer multipliers; non-lattice points and penalties up to 1e6 are "
             "outside what TLC can judge; feasibility at the returned point is recomputed by the driver."),
    "C03": dict(
        category="exploration", design_ref="DESIGN.md §3 C03, appendix B.4",
        technique="TLC model checking of Bundle.tla / BundleSize.tla / CurveSearch.tla + TLC re-derivation of the cuts of a real bundle_t (BundleTrace.tla) + sharp-objective runs",
        text="TLC checks on one-dimensional integer piecewise-linear objectives that every cut stays a lower bound with non-negative error "
             "through null/serious steps and deletions, that the stopping test certifies the gap bound, that append never reaches capacity "
             "(with the repaired guard; without it TLC finds the overflow) and the curve-search status machine. Step sequences on a real "
             "bundle_t (cuts read through the guarded accessors) are re-derived by TLC; RQB/FPBA1/FPBA2/ellipsoid on sharp objectives: "
             "`converged` implies the stated gap, the ellipsoid converges within 20000 evaluations for n <= 6; inside those runs a guarded "
             "observer hook shows the cutting plane model after every update and the invariants of Bundle.tla (cuts are lower bounds at "
             "the minimiser and at probe points, errors non-negative, size below capacity) are evaluated on it.",
        note="The n-dimensional real-valued certificate is observed per run (driver oracle with known minimiser), exact only in 1-D. "
             "One open finding: the ellipsoid method with epsilon <= 1e-7 and a warm start (known_findings.json)."),
    "C04": dict(
        category="exploration", design_ref="DESIGN.md §3 C04",
        technique="TLC model checking of InteriorPoint.tla + exact vertex enumeration of small integer LPs in TLC (LinProg.tla) + TLC validation of KKT-constructed / planted / restated programs (ProgramTrace.tla)",
        text="TLC checks the status protocol (converged only through done() on a feasible state with small residuals; non-strictly-feasible "
             "start returns unfeasible) and decides exactly feasibility and optimum of random boxed integer LPs (n <= 3) against which the "
             "solver's status/objective are compared; KKT-constructed LPs/QPs (n <= 12, rank-deficient Q, magnitudes 1e-2..1e2), planted "
             "infeasible/unbounded programs, bad starts and equivalent restatements (row duplication/combination, rescalings, permutations) "
             "are validated: converged implies the stated feasibility/objective/gap clauses and agreement between restatements.",
        note="All tolerance comparisons on real data are the driver's (program as stated by the caller); TLC's exact optimum is compared "
             "at 2e-3, the tight bound uses the driver's own __int128 vertex enumeration."),
    "C09": dict(
        category="exploration", design_ref="DESIGN.md §3 C09",
        technique="TLC model checking of MapReduce.tla (every worker/chunk assignment of the accumulate-then-reduce protocol) + TLC re-computation of linear/gboost objectives on exact lattice datasets (Objective.tla) + TLC validation of recorded vgrad calls (ObjectiveTrace.tla)",
        text="TLC explores every assignment of sample chunks to per-thread accumulators (<= 4 workers, <= 6 samples, all batch sizes) and shows "
             "the reduced (value, gradient) is independent of the assignment and counts each sample exactly once; on integer lattice datasets "
             "TLC re-computes the MSE objective, its gradient, the L1/L2 penalties and the gboost scale/bias objectives exactly and compares "
             "with the recorded vgrad results; a spy loss records which (target, output) pairs reach loss_t so TLC checks every sample is "
             "evaluated exactly once whatever the batch size / thread count; repeated and re-threaded calls must return identical values up to "
             "summation order.",
        note="Exactness only on the integer lattice; non-lattice data are compared between thread counts/batch sizes with a summation-order "
             "tolerance computed by the driver."),
    "C10": dict(
        category="exploration", design_ref="DESIGN.md §3 C10",
        technique="TLC brute-force re-computation of optimal weak-learner fits on small integer datasets (WeakLearner.tla) + TLC validation of recorded fit/predict/scale/merge calls (WeakLearnerTrace.tla)",
        text="For affine, stump, table (dense, k-best, k-split) and depth-bounded tree learners on integer datasets with missing values TLC "
             "enumerates every feature / threshold / bin subset, computes the exact optimal residual score (rational arithmetic over a common "
             "denominator) and checks the recorded fit reaches it, predictions add exactly table/stump outputs on the selected samples and "
             "nothing on missing ones, and that scale() / merged trees obey the algebra stated by the property.",
        note="Integer (lattice) gradients only; score ties are open (any optimal feature is accepted); tree depth <= 2, <= 4 features, <= 12 samples."),
    "C18": dict(
        category="model_checking", design_ref="DESIGN.md §3 C18",
        technique="TLC model checking of SharedConst.tla (concurrent const use of shared vs cloned objects) + TLC validation of solo-vs-concurrent call records of every registered object family (SharedTrace.tla)",
        text="TLC explores every interleaving of threads calling const members on a shared object whose members touch mutable caches, "
             "showing that only per-call / cloned scratch keeps results equal to the solo results (the _noclone configuration is the negative "
             "control); the driver calls const members of every registered loss, function, weak learner, splitter, tuner and fitted model "
             "from 1..16 threads with seeded yields and TLC checks each concurrent result equals the solo result bit for bit, and that "
             "gboost/linear fits are invariant under the pool-size cap.",
        note="One open finding: fits whose greedy choices hinge on near-ties (decision trees, several table kinds, weighted bootstraps) are "
             "schedule-dependent; they are run apart and reported as that finding. "
             "Data races that do not change a result are visible only to the auxiliary TSan run (thorough); the yield points are the "
             "pool hooks, other code is interleaved by the OS scheduler."),
    "C14": dict(
        category="other", design_ref="DESIGN.md §3 C14",
        technique="TLC re-computation of column statistics and the four scaling modes on exact-lattice data + TLC validation of recorded scale/upscale/affine records (Scaling.tla, ScalingTrace.tla)",
        text="Scoped to the exact-lattice reading: on columns whose statistics are exactly representable TLC re-computes count/min/max/mean/"
             "stdev and every scaled entry for the four modes, identity scaling of degenerate columns, missing -> 0, categorical columns "
             "untouched, inversion and the affine up-scaling identity of linear models.",
        note="Partial: on non-lattice data (1..300 rows x 1..20 columns, magnitudes 1e-6..1e6, near-constant columns, arbitrary missing "
             "patterns, multi-output models) the clauses are decided by the driver's long-double oracles with rounding tolerances and only "
             "asserted by the trace specification (rounding is outside what TLC can decide)."),
    "C06": dict(
        category="other", design_ref="DESIGN.md §3 C06",
        technique="TLC re-computation of recorded values/gradients at lattice points (exact five-point stencil identity, first-order convexity inequality, loss values/subgradients/error rules on integer data: PolyCalculus.tla) + TLC-asserted central-difference / tolerance oracles for the transcendental kernels",
        text="Scoped: on the integer lattice TLC decides exactly, from recorded integers, that the gradient of the 12 polynomial benchmark "
             "objectives, the 11 constraint kinds and the tuner's surrogate functions equals the (exact) five-point stencil of their own values "
             "along arbitrary lattice directions, that value-only and value+gradient calls agree, that every declared convexity / strong-"
             "convexity coefficient satisfies the first-order inequality on lattice pairs, and that mse/mae/hinge/squared-hinge/pinball values, "
             "(sub)gradients and the absolute / multi-label / arg-max error rules of all 17 losses follow their definitions; the remaining "
             "prototypes and the exp/log/atan losses are covered by driver oracles (central differences, tolerance inequalities) asserted by the "
             "same trace specification.",
        note="Partial: real-valued points are decided by floating-point oracles in the driver, not by TLC; no adversarial search on the "
             "violation. Two open findings (s-classnll with one output; declared strong convexity of the linear objective)."),
}

NOT_YET = "machinery not finished (see DESIGN.md §7: a property is claimed only once its quick check passes and its demo mutations are caught)"


def main():
    props = [json.loads(l)["id"] for l in open(os.path.join(ROOT, "properties.jsonl"))]
    hooks = subprocess.run(["git", "-C", "/repo", "log", "--format=%H %s"], capture_output=True, text=True).stdout.splitlines()
    hook_commits = [l.split()[0] for l in hooks if l.split(" ", 1)[1].startswith("verif:")]
    checks = []
    for pid in props:
        if pid not in CLAIMS:
            continue
        c = CLAIMS[pid]
        lv = re.search(r'^LEVEL = "(\w+)"', open(os.path.join(ROOT, "checks", pid.lower() + ".py")).read(), re.M).group(1)
        assert lv == c["category"], (pid, lv, c["category"])
        checks.append({
            "property_id": pid,
            "quick_cmd": "bin/check %s --tier quick" % pid,
            "thorough_cmd": "bin/check %s --tier thorough" % pid,
            "evidence_file": "/verif/evidence/%s.json" % pid,
            "replay_cmd_template": "bin/check %s --replay {path}" % pid,
            "engine": "tlc",
            "level_claimed": {"category": c["category"], "text": c["text"], "design_ref": c["design_ref"]},
            "level_note": c["note"],
            "technique": c["technique"],
        })
    na = [{"property_id": pid, "reason": NOT_YET} for pid in props if pid not in CLAIMS]
    manifest = {
        "version": 1,
        "setup_cmd": "bin/setup",
        "hooks": {
            "guard": "NANO_VERIF",
            "enable": "lib/common.py:build_repo configures /repo's CMake project into /verif/.build/<flavour> with "
                      "-DCMAKE_CXX_FLAGS='... -DNANO_VERIF' (libraries only) and links the harnesses against it",
            "baseline_off_cmd": "cmake --build /repo/_build -j16 && ctest --test-dir /repo/_build -j8 --timeout 900",
            "source_commits": hook_commits,
            "add_only": True,
        },
        "engines": [{"name": "tlc", "path": "/opt/veriftools/tla/tla2tools.jar",
                     "serves_properties": [c["property_id"] for c in checks],
                     "kind_free_text": "TLA+ specifications under /verif/spec checked with TLC 1.8 (exhaustive BFS, state-graph "
                                       "dumps replayed into the code, ndjson trace validation, exact re-computation of recorded calls)"},
                    {"name": "apalache", "path": "/opt/veriftools/apalache/bin/apalache-mc",
                     "serves_properties": ["C02", "C11", "C16"],
                     "kind_free_text": "inductive invariants of history-free formulations of TLA+ modules (EarlyStoppingInd, SolverStateInd, "
                                       "TensorOffsetInd): Init => IndInv, IndInv /\\ Next => IndInv', IndInv => Safety over unbounded integers; a tool "
                                       "error is only recorded, the TLC runs decide the bounded model either way"}],
        "checks": checks,
        "not_applicable": na,
        "notes": "bin/check <ID> --tier quick|thorough [--replay PATH]; known_findings.json lists repaired (fixed:) and open findings.",
    }
    with open(os.path.join(ROOT, "MANIFEST.json"), "w") as f:
        json.dump(manifest, f, indent=1)
        f.write("\n")


if __name__ == "__main__":
    main()
