"""Trace validation helpers: an ndjson file of events (executions delimited by {"e":"Reset"} lines) is checked by
TLC against a trace specification (module XTrace: TraceLog == ndJsonDeserialize(IOEnv.TRACE), variable l,
POSTCONDITION Accepted that prints <<"REJECTED_AT", diameter>> when the whole file was not consumed)."""
import os
import re

from common import tlc, write_ndjson, CheckError, log


def split_executions(records):
    execs, cur = [], []
    for r in records:
        if r.get("e") == "Reset" and cur:
            execs.append(cur)
            cur = []
        cur.append(r)
    if cur:
        execs.append(cur)
    return execs


def _line_to_exec(execs, line):
    n = 0
    for i, e in enumerate(execs):
        if line <= n + len(e):
            return i, line - n
        n += len(e)
    return len(execs) - 1, len(execs[-1]) if execs else 0


def validate(module, cfg, specdir, records, workfile, timeout=900, max_rejects=5, heap="8g", deque=False, tag=None, props=None, chunk=300):
    """returns (n_accepted_executions, rejects, tlc_results) where rejects is a list of dicts
    {kind: 'conformance'|'invariant', name, exec_index, line_in_exec, event, execution}.
    The executions (Reset-delimited, independent) are validated in chunks: an invariant violation makes TLC print the whole behaviour
    up to the violating state, which takes minutes when thousands of executions are concatenated in front of it. After a rejection the
    validation goes on with the executions after the rejected one (those before it have been accepted)."""
    execs = split_executions(records)
    total, pos = len(execs), 0
    rejects, results = [], []
    while pos < total and len(rejects) < max_rejects:
        part = execs[pos:pos + chunk]
        flat = [r for e in part for r in e]
        write_ndjson(workfile, flat)
        r = tlc(module, cfg, specdir, env={"TRACE": workfile}, workers=1, timeout=timeout, heap=heap, deque=deque, tag=tag, props=props)
        results.append(r)
        if r.rc == 124:
            raise CheckError("TLC timeout validating %s (%d lines)" % (workfile, len(flat)))
        if r.ok:
            pos += len(part)
            continue
        line, kind, name = None, None, None
        m = re.search(r'"REJECTED_AT", (\d+)', r.out)
        if r.invariant_violated:
            kind, name = "invariant", r.invariant_violated[0]
            ls = re.findall(r"^/?\\?\s*/\\ l = (\d+)", r.out, re.M) or re.findall(r"\bl = (\d+)", r.out)
            line = (int(ls[-1]) - 1) if ls else None
        elif m:
            kind, name, line = "conformance", "no action of the specification matches the event", int(m.group(1))
        elif r.property_violated:
            kind, name = "invariant", "action property"
            ls = re.findall(r"\bl = (\d+)", r.out)
            line = (int(ls[-1]) - 1) if ls else None
        if kind is None or line is None or line < 1:
            raise CheckError("TLC failed on trace %s:\n%s" % (workfile, r.out[-5000:]))
        line = min(line, len(flat))
        i, k = _line_to_exec(part, line)
        rejects.append({"kind": kind, "name": name, "exec_index": pos + i, "line_in_exec": k,
                        "event": part[i][k - 1] if 0 < k <= len(part[i]) else None, "execution": part[i]})
        log("trace rejected: %s %s at execution %d line %d: %s" % (kind, name, pos + i, k, rejects[-1]["event"]))
        pos += i + 1
    return total - len(rejects) - (total - pos), rejects, results


def validate_independent(module, cfg, specdir, recs, workfile, tag=None, timeout=2400, heap="6g", max_rejects=5, props=None):
    """for (E)-style traces whose records are independent calls: on a rejection the offending record is dropped and the
    validation continues with the records after it; returns (n_accepted, rejected_records, tlc_states)"""
    rejects, cur, states = [], list(recs), 0
    while cur:
        write_ndjson(workfile, cur)
        r = tlc(module, cfg, specdir, env={"TRACE": workfile}, workers=1, timeout=timeout, tag=tag, heap=heap, props=props)
        states += r.distinct
        if r.rc == 124:
            raise CheckError("TLC timeout validating %s" % workfile)
        if r.ok:
            break
        m = re.search(r'"REJECTED_AT", (\d+)', r.out)
        if not m:
            raise CheckError("TLC failed on %s:\n%s" % (workfile, r.out[-3000:]))
        k = int(m.group(1))
        rejects.append(cur[k - 1])
        cur = cur[k:]
        if len(rejects) >= max_rejects:
            break
    try:
        os.remove(workfile)
    except OSError:
        pass
    return len(recs) - len(rejects), rejects, states
