"""SampleSets.tla (cluster_t and the testing marks of datasource_t): exhaustive TLC run + replay of every edge of the state graph
against the real objects. Shared by C10 (cluster_t) and C08 (train/test sample selection)."""
import os

import common
import dot
from common import CheckError

SPECDIR = os.path.join(common.SPEC, "sets")


def run(rep, pid, tier):
    work = common.workdir(pid + "sets")
    exe = common.build_harness("sets_driver")["sets_driver"]
    cfg = "SampleSets.cfg" if tier == "quick" else "SampleSets_big.cfg"
    dotfile = os.path.join(work, "sets.dot")
    r = common.tlc("SampleSets", cfg, SPECDIR, workers=4, timeout=1800, extra=["-dump", "dot,actionlabels", dotfile])
    rep.add_tlc(r, "SampleSets.tla/%s (cluster_t + testing marks, all histories)" % cfg)
    if not r.ok:
        if r.invariant_violated or r.property_violated:
            rep.violation("SampleSets.tla violates %s" % (r.invariant_violated or "an action property"), payload=r.out[-4000:])
            return
        raise CheckError("TLC failed on SampleSets.tla:\n" + r.out[-3000:])
    g = dot.Graph(dotfile)
    pred = g.bfs_tree()
    n = len(next(iter(g.nodes.values()))["grp"])
    G = max(s["ng"] for s in g.nodes.values())

    def expected(s):
        return "E %s %s" % (" ".join(str(s["grp"][i]) for i in range(n)), " ".join(str(int(s["testing"][i])) for i in range(n)))

    def step(lab, v):
        name, args = dot.Graph.action(lab)
        op = {"Assign": "A %d %d", "MarkTesting": "T %d %d", "NoTesting": "Z"}[name]
        return (op % tuple(args) if "%" in op else op) + "\n" + expected(g.nodes[v])

    plan = os.path.join(work, "sets_plan.txt")
    with open(plan, "w") as f:
        for a, b, lab in g.edges:
            path = g.path_to(pred, a)
            init = g.nodes[path[0][0]] if path else g.nodes[a]
            mask = sum(1 << i for i in range(n) if init["grp"][i] == 0)
            steps = [step(l, v) for _, l, v in path] + [step(lab, b)]
            f.write("P %d %d %d %d %d\n%s\n" % (n, G, len(steps), 1 if init["ng"] == 1 else 0, mask, "\n".join(steps)))
    out = os.path.join(work, "sets_replay.ndjson")
    rc, o, _ = common.run([exe, plan, out], timeout=1800, check=False)
    recs = common.read_ndjson(out) if os.path.exists(out) else []
    summ = [x for x in recs if x["e"] == "Summary"]
    if rc != 0 or not summ:
        rep.violation("sample-set replay driver crashed (rc=%d)" % rc, payload={"output": o[-3000:]})
        return
    for m in [x for x in recs if x["e"] == "Mismatch"][:5]:
        rep.violation("%s deviates from SampleSets.tla: impl=%s spec=%s" % (m["what"], m["impl"], m["spec"]), payload=m)
    if not rep.violations and summ[0]["paths"] != len(g.edges):
        raise CheckError("sample-set replay: %d of %d paths executed" % (summ[0]["paths"], len(g.edges)))
    rep.add(sample_sets_edges_replayed=len(g.edges), sample_sets_states=len(g.nodes), sample_sets_accessor_comparisons=summ[0]["compared"])
