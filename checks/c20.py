"""C20 - order statistics and histograms: TLC re-computes, with the exact reference operators of OrderStats.tla, every
recorded call of the real functions: exhaustively all short lists over a small lattice alphabet, and random long lists;
the reference operators themselves are model-checked against the textual definitions on a small scope."""
import os
from concurrent.futures import ThreadPoolExecutor

import common
import trace
from common import CheckError

LEVEL = "model_checking"
SPECDIR = os.path.join(common.SPEC, "stats")


def run(rep, tier):
    work = common.workdir("C20")
    exe = common.build_harness("stats_driver")["stats_driver"]
    r = common.tlc("OrderStatsProps", "OrderStatsProps.cfg", SPECDIR, workers=8, timeout=900)
    rep.add_tlc(r, "OrderStatsProps.tla (reference operators vs. textual definitions, all lists <=4 over 5 values x thresholds <=2)")
    if not r.ok:
        if r.invariant_violated:
            rep.violation("OrderStatsProps.tla violates %s" % r.invariant_violated, payload=r.out[-4000:])
        else:
            raise CheckError("TLC failed on OrderStatsProps:\n" + r.out[-3000:])
    # exhaustive part once, random part in several processes
    # (+ a sweep over list lengths of all integer percentages whose position is integral, shared between the random processes)
    nr, top = (4, 200) if tier == "quick" else (8, 500)
    plans = [(0, 3 if tier == "quick" else 4, 0, 1, 0)] + [(i, 0, 40 if tier == "quick" else 250, 1 + (i - 1) * top // nr, i * top // nr)
                                                             for i in range(1, nr + 1)]

    def drive(p):
        i, maxlen, nrand, lo, hi = p
        out = os.path.join(work, "stats_%d.ndjson" % i)
        rc, o, _ = common.run([exe, out, str(common.seed() * 1000 + i), str(maxlen), str(nrand), str(lo), str(hi)], timeout=1500, check=False)
        return out, rc, o

    with ThreadPoolExecutor(8) as ex:
        outs = list(ex.map(drive, plans))
    jobs = []
    for out, rc, o in outs:
        rs = common.read_ndjson(out) if os.path.exists(out) else []
        if rc != 0 or not rs or rs[-1].get("variant") != "end-marker":
            rep.violation("stats driver crashed (rc=%d)" % rc, payload={"output": o[-3000:]})
        for x in [x for x in rs if x["e"] in ("Inexact", "Abort")][:3]:
            rep.violation("a result on the exact lattice is not on the lattice: %s" % x, payload=x)
        recs = [x for x in rs if x["e"] not in ("Inexact", "Abort")]
        # split the big exhaustive file
        for k in range(0, len(recs), 6000):
            jobs.append((out + ".%d" % k, recs[k:k + 6000]))

    def check(job):
        out, recs = job
        # every record is an independent "execution": reject -> drop that record and go on
        for r in recs:
            r.setdefault("_", 0)
        return validate_records(out, recs)

    with ThreadPoolExecutor(10) as ex:
        results = list(ex.map(check, jobs))
    total = ok = 0
    for (out, recs), (acc, rejects) in zip(jobs, results):
        total += len(recs)
        ok += acc
        for ev in rejects:
            small = {k: (v if not isinstance(v, list) or len(v) < 30 else v[:30] + ["..."]) for k, v in ev.items()}
            rep.violation("recorded call disagrees with OrderStats.tla: %s" % str(small)[:600], payload=ev)
    allrecs = [x for _, recs in jobs for x in recs]
    nh = len([x for x in allrecs if x["e"] == "Hist"])
    npct = len([x for x in allrecs if x["e"] == "Pct"])
    nq = sum(len(x["queries"]) for x in allrecs if x["e"] == "Hist")
    if not rep.violations and (nh < 500 or npct < 500):
        raise CheckError("stats driver coverage too small")
    nhf = len([x for x in allrecs if x["e"] == "HistF"])
    neq = len([x for x in allrecs if x["e"] == "Hist" and x.get("equidistant", 0) > 0])
    if not rep.violations and (nhf < 500 or neq < 300):
        raise CheckError("stats driver coverage too small: %d real-valued histograms, %d equidistant histograms on the lattice" % (nhf, neq))
    rep.add(traces_validated_against_impl=ok, records=total, histograms=nh, percentile_calls=npct, bin_queries=nq, exhaustive=True,
            equidistant_histograms_on_lattice=neq, real_valued_histograms=nhf)
    rep.sample([x for x in allrecs if x["e"] == "Hist" and len(x["vals"]) > 2][0])
    rep.sample([x for x in allrecs if x["e"] == "Pct" and len(x["vals"]) > 2][1])
    rep.assume("values are multiples of 1/4, thresholds/queries multiples of 1/64, percentages multiples of 1/8, ratios multiples of 1/8: "
               "every intermediate double is exact and p(n-1)/100 is exact or >= 1/800 away from an integer",
               "histograms whose thresholds are not on the lattice (equidistant ratios / percentages for any number of bins, exponents with any "
               "base and epsilon, values at and below epsilon) are re-computed by the driver itself (HistF records: naive partition by the reported "
               "thresholds, tolerance 1e-12 on means / medians / thresholds); the vector accessors are compared with the per-bin getters by the driver",
               "thresholds derived from exponents are not re-derived (log/pow); the bin clauses are checked against the reported thresholds; "
               "the standard deviation slot of ml::store_stats (sqrt) is not checked")


def validate_records(workfile, recs):
    """records are independent: on a rejection drop the offending record and continue"""
    rejects = []
    cur = list(recs)
    while cur:
        common.write_ndjson(workfile, cur)
        r = common.tlc("OrderStatsTrace", "OrderStatsTrace.cfg", SPECDIR, env={"TRACE": workfile}, workers=1, timeout=1500,
                       tag="c20_" + os.path.basename(workfile))
        if r.ok:
            break
        import re
        m = re.search(r'"REJECTED_AT", (\d+)', r.out)
        if not m:
            raise CheckError("TLC failed on %s:\n%s" % (workfile, r.out[-3000:]))
        k = int(m.group(1))
        rejects.append(cur[k - 1])
        cur = cur[k:]            # the records before k were accepted
        if len(rejects) >= 5:
            break
    return len(recs) - len(rejects), rejects


def replay(rep, path):
    run(rep, "quick")
