"""shared by C01 / C02: SolverLoop.tla model-checked, solver_driver traces validated against MinimizerTrace.tla"""
import os
from concurrent.futures import ThreadPoolExecutor

import common
import trace
from common import CheckError

SPECDIR = os.path.join(common.SPEC, "solver")


def model_check(rep, cfgs):
    for cfg in cfgs:
        r = common.tlc("SolverLoop", cfg, SPECDIR, workers=8, timeout=1800)
        rep.add_tlc(r, "SolverLoop.tla/" + cfg)
        if not r.ok:
            if r.invariant_violated:
                rep.violation("SolverLoop.tla (%s) violates %s" % (cfg, r.invariant_violated), payload=r.out[-4000:])
            else:
                raise CheckError("TLC failed on SolverLoop/%s:\n%s" % (cfg, r.out[-3000:]))


def drive_and_validate(rep, pid, nproc, nsweep, ntruth, nquad):
    work = common.workdir(pid)
    exe = common.build_harness("solver_driver")["solver_driver"]

    def drive(i):
        out = os.path.join(work, "solver_%d.ndjson" % i)
        rc, o, _ = common.run([exe, out, str(common.seed() * 1000 + i + 1), str(nsweep), str(ntruth), str(nquad)], timeout=3000, check=False)
        rs = common.read_ndjson(out) if os.path.exists(out) else []
        crashed = rc != 0 or not rs or rs[-1].get("case") != -1
        bad = [x for x in rs if x["e"] in ("Abort", "Timeout")]
        rs = [x for x in rs if x["e"] not in ("Abort", "Timeout")]
        acc, rejects, tl = trace.validate("MinimizerTrace", "MinimizerTrace.cfg", SPECDIR, rs, out + ".tlc", tag="%s_%d" % (pid, i), timeout=2400)
        return crashed, o, bad, acc, rejects, rs

    with ThreadPoolExecutor(nproc) as ex:
        results = list(ex.map(drive, range(nproc)))
    total = 0
    stats = {"converged": 0, "max_iters": 0, "failed": 0}
    solvers, nevals = set(), 0
    for crashed, o, bad, acc, rejects, rs in results:
        if crashed:
            rep.violation("solver driver crashed or did not terminate", payload={"output": o[-3000:], "tail": rs[-3:]})
        for b in bad[:3]:
            rep.violation("solver driver: %s (a run that does not terminate / throws violates the contract)" % b, payload=b)
        total += acc
        for rj in rejects:
            head = rj["execution"][0]
            start = [x for x in rj["execution"] if x["e"] == "Start"][:1]
            ret = [x for x in rj["execution"] if x["e"] == "Ret"][:1]
            rep.violation("solver run [%s] violates %s: start=%s ret=%s" % (head.get("desc"), rj["name"], start, ret),
                          payload={"desc": head.get("desc"), "kind": rj["kind"], "name": rj["name"], "start": start, "ret": ret, "event": rj["event"]})
        for x in rs:
            if x["e"] == "Ret":
                stats[x["status"]] = stats.get(x["status"], 0) + 1
            elif x["e"] == "Start":
                solvers.add(x["solver"])
            elif x["e"] == "Evals":
                nevals += x["count"]
    ex0 = trace.split_executions(results[0][5])
    if ex0:
        rep.sample({"run": [x for x in ex0[min(3, len(ex0) - 1)] if x["e"] in ("Reset", "Start", "Ret")]})
    return total, stats, solvers, nevals
