"""C12 - splitters and samplers: (M) TLC checks the chunking schemes for every shuffle of n<=6 indices; (E) TLC evaluates
the set predicates on recorded calls: k-fold exhaustively for n 2..40 x folds 2..min(n,12) x seeds (thorough: all 1025,
quick: a stride), random splitter on two full axes, random larger non-contiguous inputs, samplers, ball sampling."""
import os
import re
from concurrent.futures import ThreadPoolExecutor

import common
from common import CheckError

LEVEL = "model_checking"
SPECDIR = os.path.join(common.SPEC, "splitter")


def validate_records(workfile, recs, tag):
    rejects, cur = [], list(recs)
    while cur:
        common.write_ndjson(workfile, cur)
        r = common.tlc("SplitterTrace", "SplitterTrace.cfg", SPECDIR, env={"TRACE": workfile}, workers=1, timeout=2400, tag=tag, heap="6g")
        if r.ok:
            break
        m = re.search(r'"REJECTED_AT", (\d+)', r.out)
        if not m:
            raise CheckError("TLC failed on %s:\n%s" % (workfile, r.out[-3000:]))
        k = int(m.group(1))
        rejects.append(cur[k - 1])
        cur = cur[k:]
        if len(rejects) >= 5:
            break
    return len(recs) - len(rejects), rejects


def run(rep, tier):
    work = common.workdir("C12")
    exe = common.build_harness("splitter_driver")["splitter_driver"]
    r = common.tlc("SplitterModel", "SplitterModel.cfg", SPECDIR, workers=8, timeout=900)
    rep.add_tlc(r, "SplitterModel.tla (all permutations of n<=6 x folds x percentages)")
    if not r.ok:
        if r.invariant_violated:
            rep.violation("SplitterModel.tla violates %s" % r.invariant_violated, payload=r.out[-4000:])
        else:
            raise CheckError("TLC failed on SplitterModel:\n" + r.out[-3000:])
    parts, stride, nrand = (6, 64, 60) if tier == "quick" else (16, 1, 240)

    def drive(i):
        out = os.path.join(work, "split_%d.ndjson" % i)
        rc, o, _ = common.run([exe, out, str(common.seed() * 1000 + i + 1), str(i), str(parts), str(stride), str(nrand)], timeout=2400, check=False)
        rs = common.read_ndjson(out) if os.path.exists(out) else []
        crashed = rc != 0 or not rs or rs[-1].get("dim") != 0
        acc, rejects = validate_records(out + ".tlc", rs, "c12_%d" % i)
        os.remove(out + ".tlc")
        kinds = {}
        for x in rs:
            kinds[x["e"]] = kinds.get(x["e"], 0) + 1
        sample = [x for x in rs if x["e"] == "KFold" and len(x["input"]) in (7, 11)][:1]
        return crashed, o, acc, rejects, kinds, sample

    with ThreadPoolExecutor(parts) as ex:
        results = list(ex.map(drive, range(parts)))
    total = 0
    kinds = {}
    for crashed, o, acc, rejects, ks, sample in results:
        if crashed:
            rep.violation("splitter driver crashed", payload={"output": o[-3000:]})
        total += acc
        for k, v in ks.items():
            kinds[k] = kinds.get(k, 0) + v
        for ev in rejects:
            small = {k: (v if not isinstance(v, list) or len(v) < 40 else "[%d items]" % len(v)) for k, v in ev.items()}
            rep.violation("recorded call violates the set structure of Splitter.tla: %s" % str(small)[:700], payload=ev)
        for s in sample:
            rep.sample(s, limit=2)
    if not rep.violations and (kinds.get("KFold", 0) < 1000 or kinds.get("Random", 0) < 1000 or kinds.get("Sample", 0) < 100 or kinds.get("BallMap", 0) < 50):
        raise CheckError("splitter driver coverage too small: %s" % kinds)
    rep.add(traces_validated_against_impl=total, records=kinds, seed_stride=stride,
            exhaustive=(stride == 1),
            enumeration="k-fold: n 2..40 x folds 2..min(n,12) x seeds 0..1024 step %d; random splitter: same grid with percentages "
                        "{10,25,50,75,80,90} by seed, plus all percentages 10..90 x one seed per (n, folds)" % stride)
    rep.assume("ball membership is a real-valued norm computed by the driver (logged as a boolean, slack 1e-12 r + 4 ulp |x0|)",
               "the random splitter is enumerated on two full axes, not on the full product with the 81 percentages")


def replay(rep, path):
    run(rep, "quick")
