"""C13 - tuners and ml::tune: (M) TLC on Tuner.tla (all landscapes on small grids, both tuners) and MLTune.tla (all
schedules of the (trial, fold) tasks), (V) traces of the real tuners / ml::tune validated against TunerTrace.tla."""
import os
from concurrent.futures import ThreadPoolExecutor

import combinatorial
import common
import tuneresult
import trace
from common import CheckError

LEVEL = "model_checking"
SPECDIR = os.path.join(common.SPEC, "tuner")


def run(rep, tier):
    work = common.workdir("C13")
    # the tuning book-keeping (ml::result_t): TuneResult.tla, every edge replayed on the real object
    tuneresult.run(rep, "C13", tier)
    # the odometer that enumerates the 3^d neighbours of a grid point: Combinatorial.tla, replayed on the real iterator
    combinatorial.run(rep, "C13", tier)
    cfgs = [("Tuner", "Tuner_q_local.cfg", 4), ("Tuner", "Tuner_q_surrogate.cfg", 4), ("Tuner", "Tuner_q_1d.cfg", 2),
            ("Tuner", "Tuner_q_3d.cfg", 2), ("MLTune", "MLTune_mc.cfg", 2)]
    if tier == "thorough":
        cfgs.append(("Tuner", "Tuner_t_4x3.cfg", 8))

    def mc(c):
        return c, common.tlc(c[0], c[1], SPECDIR, workers=c[2], timeout=3000, heap="12g")

    exe = common.build_harness("tuner_driver")["tuner_driver"]
    with ThreadPoolExecutor(len(cfgs)) as ex:
        results = list(ex.map(mc, cfgs))
    for (mod, cfg, _), r in results:
        rep.add_tlc(r, "%s.tla/%s" % (mod, cfg))
        if not r.ok:
            if r.invariant_violated or r.property_violated:
                rep.violation("%s (%s) violates %s" % (mod, cfg, r.invariant_violated or "a temporal property"), payload=r.out[-5000:])
            else:
                raise CheckError("TLC failed on %s/%s:\n%s" % (mod, cfg, r.out[-3000:]))

    na, nb, nproc = (400, 160, 8) if tier == "quick" else (6000, 2400, 16)

    def drive(i):
        out = os.path.join(work, "tuner_%d.ndjson" % i)
        rc, o, _ = common.run([exe, out, str(common.seed() * 1000 + i + 1), str(na // nproc), str(nb // nproc)], timeout=3000, check=False)
        return out, rc, o

    with ThreadPoolExecutor(4) as ex:
        outs = list(ex.map(drive, range(nproc)))
    jobs = []
    for out, rc, o in outs:
        rs = common.read_ndjson(out) if os.path.exists(out) else []
        bad = [x for x in rs if x["e"] in ("Abort", "Timeout")]
        if rc != 0 or bad:
            rep.violation("tuner driver failed (rc=%d): %s" % (rc, bad[:1] or o[-1500:]), payload={"trace": out, "output": o[-3000:]})
        jobs.append((out, [x for x in rs if x["e"] not in ("Abort", "Timeout")]))

    def check(job):
        out, recs = job
        return trace.validate("TunerTrace", "TunerTrace.cfg", SPECDIR, recs, out + ".tlc", tag="c13_" + os.path.basename(out))

    with ThreadPoolExecutor(8) as ex:
        results = list(ex.map(check, jobs))
    accepted = 0
    allrecs = []
    for (out, recs), (acc, rejects, _) in zip(jobs, results):
        accepted += acc
        allrecs += recs
        for rj in rejects:
            rep.violation("tuner trace rejected (%s) in case %s at %s" % (rj["name"], rj["execution"][0], str(rj["event"])[:300]), payload=rj)
    ntuner = len([x for x in allrecs if x["e"] == "Grid"])
    ntune = len([x for x in allrecs if x["e"] == "Tune"])
    nthrew = len([x for x in allrecs if x["e"] == "Threw"])
    ncb = len([x for x in allrecs if x["e"] == "Cb"])
    nwarm = len([x for x in allrecs if x["e"] == "Cb" and x.get("batch0", -1) > 0])
    if not rep.violations and (ntuner < 50 or ntune < 20 or nthrew < 3 or nwarm < 200):
        raise CheckError("tuner driver coverage too small: %d tuner runs, %d tune runs, %d throws, %d warm starts with visible batches"
                         % (ntuner, ntune, nthrew, nwarm))
    rep.add(traces_validated_against_impl=accepted, tuner_runs=ntuner, tune_runs=ntune, nonfinite_runs=nthrew, callbacks_checked=ncb,
            warm_starts_checked=nwarm)
    ex0 = trace.split_executions(allrecs)
    rep.sample({"tuner_run": ex0[0][:6]})
    tunes = [e for e in ex0 if any(x["e"] == "Tune" for x in e)]
    if tunes:
        rep.sample({"tune_run": tunes[0][:8]})
    rep.assume("landscape values and callback results are small integers (exact); values enter TLC as order ranks / sums",
               "the callback of ml::tune identifies its fold by comparing the index sets it receives with the splitter's (k-fold: pairwise distinct folds)",
               "the trial of a callback invocation is resolved after the run from the parameter values registered in the result",
               "the batches of trials are read off the moments ml::tune writes to the logger of the fit parameters (after every batch); "
               "the warm start of a callback must come from a finished callback of the same fold (logical clock) and, batch-wise, from "
               "a closest trial (Euclidean distance, any of the closest) of the earlier batches - nothing in the first batch")


def replay(rep, path):
    run(rep, "quick")
