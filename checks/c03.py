"""C03 - bundle / ellipsoid solvers: (M) TLC on Bundle.tla (1-D integer cutting-plane model incl. the stop certificate),
BundleSize.tla (size/capacity bookkeeping of append) and CurveSearch.tla (status machine); (V) step sequences on a real
bundle_t with the cuts read back and re-derived by TLC, and runs of RQB/FPBA1/FPBA2/ellipsoid on sharp objectives."""
import os
from concurrent.futures import ThreadPoolExecutor

import common
import trace
from common import CheckError

LEVEL = "exploration"
KNOWN_ELLIPSOID = "ellipsoid:converged:gap>10eps:epsilon<=1e-7:warm-start<=1e-2"
SPECDIR = os.path.join(common.SPEC, "bundle")


def run(rep, tier):
    work = common.workdir("C03")
    models = [("Bundle", "Bundle_mc.cfg"), ("BundleSize", "BundleSize_2.cfg"), ("BundleSize", "BundleSize_3.cfg"), ("BundleSize", "BundleSize_4.cfg"),
              ("CurveSearch", "CurveSearch.cfg")]
    if tier == "thorough":
        models.append(("Bundle", "Bundle_mc2.cfg"))

    def mc(m):
        return m, common.tlc(m[0], m[1], SPECDIR, workers=4, timeout=1800)

    exe = common.build_harness("bundle_driver")["bundle_driver"]
    with ThreadPoolExecutor(len(models)) as ex:
        for (mod, cfg), r in ex.map(mc, models):
            rep.add_tlc(r, "%s.tla/%s" % (mod, cfg))
            if not r.ok:
                if r.invariant_violated:
                    rep.violation("%s (%s) violates %s" % (mod, cfg, r.invariant_violated), payload=r.out[-4000:])
                else:
                    raise CheckError("TLC failed on %s/%s:\n%s" % (mod, cfg, r.out[-3000:]))
    common.negative_control(rep, "BundleSize", "BundleSize_3_noguard.cfg", SPECDIR,
                            "without the capacity guard (the defect repaired by the fix: commit) the size model violates NoOverflow")

    nproc, nb, ns, nsmall = (8, 500, 60, 300) if tier == "quick" else (16, 5000, 600, 3000)

    def drive(i):
        out = os.path.join(work, "bundle_%d.ndjson" % i)
        rc, o, _ = common.run([exe, out, str(common.seed() * 1000 + i + 1), str(nb), str(ns), str(nsmall)], timeout=3000, check=False)
        rs = common.read_ndjson(out) if os.path.exists(out) else []
        crashed = rc != 0 or not rs or rs[-1].get("case") != -1
        bad = [x for x in rs if x["e"] in ("Abort", "Timeout")]
        rs = [x for x in rs if x["e"] not in ("Abort", "Timeout")]
        # the recorded finding: the ellipsoid method with a tight epsilon and a start very close to the minimiser (reported separately;
        # every other clause of those records is still validated)
        known = []
        for x in rs:
            if (x["e"] == "Sharp" and x["solver"] == "ellipsoid" and x["status"] == "converged" and not x["gapOK"]
                    and x.get("eps_e12", 10 ** 9) <= 100000 and x.get("dist_e6", 4 * 10 ** 6) <= 10 ** 4):
                known.append(dict(x))
                x["gapOK"] = True
        # executions: a BInit starts a bundle history; Sharp records are independent
        groups, cur = [], []
        for x in rs:
            if x["e"] in ("BInit", "Sharp") and cur:
                groups.append(cur)
                cur = []
            cur.append(x)
        if cur:
            groups.append(cur)
        acc, rejects = validate_groups(groups, out + ".tlc", "c03_%d" % i)
        return crashed, o, bad, acc, rejects, rs, known

    with ThreadPoolExecutor(nproc) as ex:
        results = list(ex.map(drive, range(nproc)))
    total = nsteps = nconv = nagg = npairs = 0
    for crashed, o, bad, acc, rejects, rs, known in results:
        for kf in known[:1]:
            rep.violation("ellipsoid reports converged with a gap above 10 epsilon (tight epsilon, warm start): %s" % kf, payload=kf, signature=KNOWN_ELLIPSOID)
    for crashed, o, bad, acc, rejects, rs, known in results:
        if crashed:
            rep.violation("bundle driver crashed (heap overflow / abort?)", payload={"output": o[-3000:]})
        for b in bad[:3]:
            rep.violation("bundle driver: %s" % b, payload=b)
        total += acc
        for g in rejects:
            rep.violation("bundle history / sharp run rejected by BundleTrace.tla: %s" % str(g[-1])[:500], payload={"history": g[-8:]})
        for x in rs:
            if x["e"] == "BStep":
                nsteps += 1
                nagg += 0 if x["exact"] else 1
            elif x["e"] == "Sharp":
                nconv += 1 if x["status"] == "converged" else 0
                npairs += 1 if x.get("pairs", 0) > 0 else 0
    if not rep.violations and (nsteps < 2000 or nconv < 100 or npairs < 100):
        raise CheckError("bundle coverage too small: %d steps, %d converged sharp runs, %d runs with drawn csearch::m1m2 / prox::miu0_range"
                         % (nsteps, nconv, npairs))
    rep.sample({"bundle_history": [x for x in results[0][5] if x["e"] in ("BInit", "BStep")][:4]})
    rep.sample([x for x in results[0][5] if x["e"] == "Sharp"][0])
    rep.add(traces_validated_against_impl=total, evaluations=total, distinct_nontrivial=nconv, bundle_steps=nsteps, aggregated_steps=nagg,
            converged_sharp_runs=nconv, runs_with_drawn_pair_parameters=npairs,
            rule="bundle histories: 1-D objectives sum a_k|z-b_k| (integer), bundle sizes 2..100, up to 14 solve+null/serious steps; sharp runs: "
                 "|A(x-x*)|_1 or _inf (+ (mu/2)|x-x*|^2), sigma_min(A) >= 1, n <= 8 (ellipsoid n <= 6), epsilon 1e-8..1e-3, bundle size 2..100, "
                 "max_evals 100..20000, in half of the runs curve-search / proximity parameters (m3, m4, interpol, extrapol, min_dot_nuv, the pairs m1m2 and "
                 "miu0_range) drawn around their defaults or anywhere in their domains; non-trivial = runs reporting `converged` (the clause's antecedent)")
    rep.assume("the n-dimensional optimality gap f(x)-f* <= 2 eps sqrt(n) (1+|x-x*|) (10 eps for the ellipsoid) is computed by the driver from its "
               "own objective with known minimiser; TLC derives the cuts exactly only in one dimension with integer data",
               "after an aggregation (bundle nearly full) the cuts are real-valued: their lower-bound property is then tested by the driver on the "
               "domain -8..8")


def validate_groups(groups, workfile, tag):
    import re
    rejects = []
    while groups:
        flat = [x for g in groups for x in g]
        common.write_ndjson(workfile, flat)
        r = common.tlc("BundleTrace", "BundleTrace.cfg", SPECDIR, env={"TRACE": workfile}, workers=1, timeout=2400, tag=tag)
        if r.ok:
            break
        m = re.search(r'"REJECTED_AT", (\d+)', r.out)
        if not m:
            raise CheckError("TLC failed on %s:\n%s" % (workfile, r.out[-3000:]))
        line, n = int(m.group(1)), 0
        for gi, g in enumerate(groups):
            if line <= n + len(g):
                rejects.append(g[:line - n])
                del groups[gi]
                break
            n += len(g)
        if len(rejects) >= 5:
            break
    try:
        os.remove(workfile)
    except OSError:
        pass
    return len(groups), rejects


def replay(rep, path):
    run(rep, "quick")
