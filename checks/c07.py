"""C07 - line searches: (M) TLC on LineSearch.tla (control flow of backtrack / lemarechal / fletcher against all predicate
sequences), (V) searches of the five real strategies recorded through a counting wrapper and validated against
LineSearchTrace.tla."""
import os
from concurrent.futures import ThreadPoolExecutor

import common
import trace
from common import CheckError

LEVEL = "exploration"
SPECDIR = os.path.join(common.SPEC, "lsearch")


def run(rep, tier):
    work = common.workdir("C07")
    for algo in ("backtrack", "lemarechal", "fletcher"):
        r = common.tlc("LineSearch", "LineSearch_%s.cfg" % algo, SPECDIR, workers=4, timeout=900)
        rep.add_tlc(r, "LineSearch.tla/%s" % algo)
        if not r.ok:
            if r.invariant_violated:
                rep.violation("LineSearch.tla (%s) violates %s" % (algo, r.invariant_violated), payload=r.out[-4000:])
            else:
                raise CheckError("TLC failed on LineSearch/%s:\n%s" % (algo, r.out[-3000:]))
    exe = common.build_harness("lsearch_driver")["lsearch_driver"]
    nproc, cases = (8, 1500) if tier == "quick" else (16, 20000)

    def drive(i):
        out = os.path.join(work, "ls_%d.ndjson" % i)
        rc, o, _ = common.run([exe, out, str(common.seed() * 1000 + i + 1), str(cases)], timeout=3000, check=False)
        rs = common.read_ndjson(out) if os.path.exists(out) else []
        crashed = rc != 0 or not rs or rs[-1].get("case") != -1
        bad = [x for x in rs if x["e"] in ("Abort", "Timeout")]
        rs = [x for x in rs if x["e"] not in ("Abort", "Timeout")]
        # one search = one execution
        for x in rs:
            if x["e"] == "Search":
                x["_reset"] = 1
        acc, rejects, states = validate(rs, out + ".tlc", "c07_%d" % i)
        return crashed, o, bad, acc, rejects, rs

    def validate(rs, workfile, tag):
        # executions are delimited by Search events: reuse trace.validate with Search acting as Reset
        recs = [dict(x, e="Reset") if False else x for x in rs]
        return validate_searches(recs, workfile, tag)

    with ThreadPoolExecutor(nproc) as ex:
        results = list(ex.map(drive, range(nproc)))
    total = nsucc = nrefused = nquad = nbarrier = ntiny = ninstalled = 0
    for crashed, o, bad, acc, rejects, rs in results:
        if crashed:
            rep.violation("line-search driver crashed", payload={"output": o[-3000:]})
        for b in bad[:3]:
            rep.violation("line-search driver: %s" % b, payload=b)
        total += acc
        for rj in rejects:
            rep.violation("line search [%s] violates %s: %s" % (rj["search"], rj["name"], rj["ret"]), payload=rj)
        cur, invalid = None, False
        for x in rs:
            if x["e"] == "Search":
                cur = x
            elif x["e"] == "LsRet":
                nsucc += 1 if x["ok"] else 0
                nrefused += 1 if (cur and not cur["descent"]) else 0
                nquad += 1 if (cur and cur["quadratic"] and cur["defaults"] and cur["descent"]) else 0
                nbarrier += 1 if (cur and cur.get("extreme") == 1 and cur["descent"] and invalid) else 0
                ntiny += 1 if (cur and cur.get("extreme") == 2 and cur["descent"]) else 0
                ninstalled += 1 if (cur and cur.get("installed") and cur["descent"]) else 0
            elif x["e"] == "Trial":
                invalid = invalid or not x["finite"]
            if x["e"] == "Search":
                invalid = False
    if not rep.violations and (nsucc < 500 or nrefused < 100 or nquad < 100 or nbarrier < 100 or ntiny < 100 or ninstalled < 100):
        raise CheckError("line-search coverage too small: %d successes, %d refusals, %d default quadratic searches, %d searches with trials outside "
                         "the objective's domain, %d with tiny directions, %d with the solvers' tolerance pairs"
                         % (nsucc, nrefused, nquad, nbarrier, ntiny, ninstalled))
    s0 = [x for x in results[0][5][:40]]
    rep.sample({"search": s0[:8]})
    rep.add(traces_validated_against_impl=total, evaluations=total, distinct_nontrivial=nsucc, successes=nsucc, non_descent_refusals=nrefused,
            default_quadratic_searches=nquad, searches_with_invalid_trials=nbarrier, tiny_direction_searches=ntiny,
            searches_with_solver_tolerances=ninstalled,
            rule="one search = (strategy, (c1,c2) anywhere in the domain, strategy parameters incl. interpolation and max_iterations, smooth "
                 "registered function 1..16 dims or random convex quadratic, x radius 1e-2..1e3, perturbed negative gradient / quasi-Newton-like "
                 "/ ascent / orthogonal direction, t0 in [1e-3,1e3] or NaN/inf; a sixth of the searches with the tolerance pairs the solvers install, "
                 "(1e-4, 0.9) and (0.1, 0.9); a tenth on an objective that is +inf / NaN outside a ball whose radius is relative to the first trial "
                 "step, a tenth along directions 1e-15..1e-9 times the gradient - the step pre-adjustment loops of lsearchk_t::get); "
                 "non-trivial = searches reporting success")
    rep.assume("Armijo / Wolfe / strong Wolfe / approximate Wolfe are recomputed by the driver from the counting wrapper's (f, g) with a slack of "
               "64 ulp of the compared magnitudes ('up to rounding')",
               "More-Thuente and CG_DESCENT are held to their conditions only on convex quadratics with default settings (their 'no further "
               "progress' exits return success without them)")


def validate_searches(rs, workfile, tag):
    """every Search..LsRet group is independent; drop a rejected group and continue"""
    import re
    rejects = []
    groups, cur = [], []
    for x in rs:
        if x["e"] == "Search" and cur:
            groups.append(cur)
            cur = []
        cur.append(x)
    if cur:
        groups.append(cur)
    states, accepted = 0, 0
    # chunks of searches per TLC run: an invariant violation makes TLC print the whole behaviour up to the violating state, which takes
    # minutes when thousands of searches are concatenated in front of it
    CHUNK = 250
    pos = 0
    while pos < len(groups) and len(rejects) < 6:
        chunk = groups[pos:pos + CHUNK]
        flat = [x for g in chunk for x in g]
        common.write_ndjson(workfile, flat)
        r = common.tlc("LineSearchTrace", "LineSearchTrace.cfg", SPECDIR, env={"TRACE": workfile}, workers=1, timeout=2400, tag=tag)
        states += r.distinct
        if r.ok:
            accepted += len(chunk)
            pos += len(chunk)
            continue
        line, name = None, None
        if r.invariant_violated:
            name = r.invariant_violated[0]
            ls = re.findall(r"^/\\ l = (\d+)", r.out, re.M)
            line = int(ls[-1]) - 1 if ls else None
        else:
            m = re.search(r'"REJECTED_AT", (\d+)', r.out)
            if m:
                name, line = "conformance", int(m.group(1))
        if line is None:
            raise CheckError("TLC failed on %s:\n%s" % (workfile, r.out[-3000:]))
        n = 0
        for gi, g in enumerate(chunk):
            if line <= n + len(g):
                rejects.append({"name": name, "search": g[0], "trials": g[1:-1][-6:], "ret": g[-1]})
                accepted += gi              # the searches before the rejected one were accepted
                pos += gi + 1               # go on with the searches after it
                break
            n += len(g)
        else:
            raise CheckError("cannot locate rejected line %d" % line)
    try:
        os.remove(workfile)
    except OSError:
        pass
    return accepted, rejects, states


def replay(rep, path):
    run(rep, "quick")
