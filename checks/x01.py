"""X01 (not one of the listed properties - the specification grows beyond them) - command line processing: (M) TLC on Cmdline.tla
(every sequence of registrations / processings / setups over a small universe of names and values), (V) random call sequences on the
real cmdline_t / cmdresult_t / cmdconfig_t validated by TLC against CmdlineTrace.tla. Run with `bin/check X01`; it is not part of
MANIFEST.json because it decides none of the listed properties."""
import os
from concurrent.futures import ThreadPoolExecutor

import common
import trace
from common import CheckError

LEVEL = "model_checking"
SPECDIR = os.path.join(common.SPEC, "cmdline")


def run(rep, tier):
    work = common.workdir("X01")
    r = common.tlc("Cmdline", "Cmdline_mc.cfg", SPECDIR, workers=12, timeout=1800)
    rep.add_tlc(r, "Cmdline.tla/Cmdline_mc.cfg (6 names, 2 values, <= 2 options, <= 3 tokens)")
    if not r.ok:
        if r.invariant_violated:
            rep.violation("Cmdline.tla violates %s" % r.invariant_violated, payload=r.out[-4000:])
        else:
            raise CheckError("TLC failed on Cmdline.tla:\n" + r.out[-3000:])
    exe = common.build_harness("cmdline_driver")["cmdline_driver"]
    nproc, cases = (4, 400) if tier == "quick" else (16, 4000)

    def drive(i):
        out = os.path.join(work, "cmdline_%d.ndjson" % i)
        rc, o, _ = common.run([exe, out, str(common.seed() * 1000 + i + 1), str(cases)], timeout=1200, check=False)
        recs = common.read_ndjson(out) if os.path.exists(out) else []
        crashed = rc != 0 or not recs or recs[-1].get("case") != -1
        acc, rejects, tl = trace.validate("CmdlineTrace", "CmdlineTrace.cfg", SPECDIR, recs[:-1], out + ".tlc", tag="x01_%d" % i)
        return crashed, o, acc, rejects, recs

    with ThreadPoolExecutor(nproc) as ex:
        results = list(ex.map(drive, range(nproc)))
    total = nproc_ok = 0
    count = {}
    for crashed, o, acc, rejects, recs in results:
        if crashed:
            rep.violation("cmdline driver crashed", payload={"output": o[-3000:]})
        for rj in rejects:
            rep.violation("command line trace rejected (%s: %s) at %s" % (rj["kind"], rj["name"], str(rj["event"])[:400]), payload=rj)
        total += acc
        for x in recs:
            count[x["e"]] = count.get(x["e"], 0) + 1
    if not rep.violations and (count.get("Process", 0) < 500 or count.get("Setup", 0) < 100 or count.get("Add", 0) < 500):
        raise CheckError("cmdline coverage too small: %s" % count)
    rep.sample({"execution": results[0][4][:8]})
    rep.add(traces_validated_against_impl=total, evaluations=sum(count.values()), distinct_nontrivial=count.get("Process", 0), records=count,
            rule="one execution = one cmdline_t: 0..4 registrations (a quarter rejected), 1..3 processings of 0..7 tokens (argv or a "
                 "configuration string) with the projected result of 20 names, 0..2 setups of a configurable object, the report of unused extras")
    rep.assume("rejected registrations fail at their first keyword (a later invalid keyword leaves the earlier ones registered: see DESIGN.md)",
               "two spellings of one parameter in one command line are not generated (the order of their assignments is unspecified)")


def replay(rep, path):
    run(rep, "quick")
