"""C17 - thread pool: (M) exhaustive TLC model checking of spec/pool/ThreadPool.tla, (V) validation by TLC of event
traces recorded from the real pool_t (hooks at the linearization points) against ThreadPoolTrace.tla."""
import os
from concurrent.futures import ThreadPoolExecutor

import common
import trace
from common import CheckError

LEVEL = "model_checking"
SPECDIR = os.path.join(common.SPEC, "pool")
CDOT = ["tlc2.tool.impl.Tool.cdot=true"]
INVS = ["AtMostOnce", "ExactlyOnceOnReturn", "ChunksTile", "TnumBelowSize", "TnumExclusive", "ReturnAfterAllDone",
        "RethrowIffAsked", "MutexExclusive", "WaitingConsistent", "QueueFresh", "NoStuck", "WorkersGoneWhenDead"]


def model_check(rep, tier):
    cfgs = [("ThreadPool_q_w3c2.cfg", 4), ("ThreadPool_q_enq.cfg", 4), ("ThreadPool_q_w3e4.cfg", 2), ("ThreadPool_q_anyorder.cfg", 2), ("ThreadPool_live.cfg", 4)]
    if tier == "thorough":
        cfgs = [("ThreadPool_t_full.cfg", 8), ("ThreadPool_t_enq3.cfg", 4), ("ThreadPool_q_w3e4.cfg", 2), ("ThreadPool_q_anyorder.cfg", 2), ("ThreadPool_live.cfg", 2)]

    def one(cw):
        cfg, workers = cw
        return cfg, common.tlc("ThreadPool", cfg, SPECDIR, workers=workers, timeout=3000, heap="12g",
                               extra=["-coverage", "1"] if cfg.startswith("ThreadPool_q_w3e4") else None)

    with ThreadPoolExecutor(len(cfgs)) as ex:
        results = list(ex.map(one, cfgs))
    # negative control of the model: a destructor that raises the stop flag without the queue's mutex loses a wake-up (one worker)
    common.negative_control(rep, "ThreadPool", "ThreadPool_neg_stop_unlocked.cfg", SPECDIR,
                            "stop flag raised without the mutex: the worker sleeps forever, ~pool_t never returns (NoStuck)")
    for cfg, r in results:
        rep.add_tlc(r, "ThreadPool.tla/" + cfg)
        if not r.ok:
            if r.invariant_violated or r.property_violated:
                rep.violation("design model %s violates %s" % (cfg, r.invariant_violated or "a temporal property"),
                              payload=r.out[-6000:])
            else:
                raise CheckError("TLC failed on %s:\n%s" % (cfg, r.out[-3000:]))
        cov = r.coverage()
        dead = [a for a, (taken, _) in cov.items() if taken == 0 and a not in ("CEnqStart", "CEnqLock", "CEnqPush", "CNotifyOne", "OStopUnlocked", "WCheckEval", "WSleep")]  # the last three: negative-control actions only
        if cov and dead:
            rep.add(vacuous_actions=dead)
            raise CheckError("actions never taken in %s: %s" % (cfg, dead))
    rep.add(model_invariants=INVS, model_liveness=["MapReturns", "ShutdownTerminates"])


def validate_traces(rep, tier, flavour="rel", nsmall=None, nbig=None, label=""):
    exe = common.build_harness("pool_driver", flavour)["pool_driver"]
    work = common.workdir("C17" + label)
    nsmall = nsmall or (400 if tier == "quick" else 4000)
    nbig = nbig or (60 if tier == "quick" else 600)
    nproc = 8
    outs = []

    def drive(i):
        out = os.path.join(work, "trace_%d.ndjson" % i)
        rc, o, _ = common.run([exe, out, str(common.seed() * 1000 + i), str(nsmall // nproc), str(nbig // nproc)],
                              timeout=1500, check=False, env={"TSAN_OPTIONS": "halt_on_error=1 exitcode=66"})
        return out, rc, o

    with ThreadPoolExecutor(4) as ex:          # 4 drivers at a time: the pools themselves use up to 16 threads
        outs = list(ex.map(drive, range(nproc)))
    jobs = []
    for out, rc, o in outs:
        recs = common.read_ndjson(out)
        bad = [r for r in recs if r["e"] in ("Abort", "Timeout")]
        if rc != 0 or bad:
            rep.violation("pool driver %s: %s" % ("exit code %d" % rc if rc else "event", bad[:1] or o[-2000:]),
                          payload={"trace": out, "events": recs[-300:], "output": o[-3000:]})
            recs = [r for r in recs if r["e"] not in ("Abort", "Timeout")]
        jobs.append((out, recs))

    def check(job):
        out, recs = job
        return trace.validate("ThreadPoolTrace", "ThreadPoolTrace.cfg", SPECDIR, recs, out + ".tlc", props=CDOT,
                              tag="c17_" + os.path.basename(out), timeout=1500)

    with ThreadPoolExecutor(8) as ex:
        results = list(ex.map(check, jobs))
    nexec = nlines = 0
    for (out, recs), (accepted, rejects, tlcs) in zip(jobs, results):
        nexec += accepted
        nlines += len(recs)
        rep.add(trace_states=sum(t.distinct for t in tlcs[-1:]))
        for rj in rejects:
            rep.violation("pool trace rejected (%s: %s) at event %s" % (rj["kind"], rj["name"], rj["event"]), payload=rj)
        for r in recs:
            if r["e"] == "MapCall":
                rep.sample({k: v for k, v in r.items()}, limit=3)
    execs = trace.split_executions([r for _, recs in jobs for r in recs])
    small = [e for e in execs if any(r["e"] == "MapCall" or r["e"] == "EnqCall" for r in e)]
    if small:
        rep.sample({"execution": small[0][:25]}, limit=4)
    nontrivial = len({(e[0].get("workers"), e[0].get("callers"), tuple((r["n"], r["chunk"], r["raise"]) for r in e if r["e"] == "MapCall"),
                       tuple(r["tnum"] for r in e if r["e"] == "Begin")) for e in small if e[0].get("workers", 1) > 1})
    rep.add(traces_validated_against_impl=nexec, trace_events=nlines, evaluations=len(execs),
            distinct_nontrivial=nontrivial,
            rule="one execution = one pool life-cycle (1-16 workers, 1-4 concurrent callers, map/chunked map/enqueue, "
                 "throwing tasks, seeded yields at every hook) or a batch of big map() calls; non-trivial = pooled path "
                 "(>1 worker) with a distinct (sizes, calls, worker-id assignment) signature")
    return nexec


def run(rep, tier):
    rep.assume("the hooks (guard NANO_VERIF) are placed at the linearization points: inside the pool mutex for Locked/Woke/"
               "Pop/StopSeen/Enq/EnqOne/StopSet, sequence numbers from one seq_cst atomic",
               "a worker blocking inside condition_variable::wait and its wake-up are not logged; they are inferred from the "
               "next event (blocking is accepted only when the wait predicate is false, wake-ups are always legal); lost "
               "wake-ups are decided by the model (NoStuck, liveness) and show up on the implementation as a Timeout event",
               "TLC action composition (tlc2.tool.impl.Tool.cdot) is used by the trace specification")
    model_check(rep, tier)
    validate_traces(rep, tier)
    if tier == "thorough":
        # auxiliary: the same driver under ThreadSanitizer (a report aborts the driver -> violation)
        validate_traces(rep, "quick", flavour="tsan", nsmall=160, nbig=16, label="tsan")


def replay(rep, path):
    import json
    data = json.load(open(path))
    payload = data.get("payload") or {}
    execution = payload.get("execution")
    if execution:
        work = common.workdir("C17replay")
        accepted, rejects, _ = trace.validate("ThreadPoolTrace", "ThreadPoolTrace.cfg", SPECDIR, execution,
                                              os.path.join(work, "replay.ndjson"), props=CDOT)
        for rj in rejects:
            rep.violation("replayed trace rejected (%s: %s) at %s" % (rj["kind"], rj["name"], rj["event"]), payload=rj)
        rep.add(traces_validated_against_impl=accepted, states=1, transitions=1)
        rep.sample(execution[:10])
    else:
        run(rep, data.get("tier", "quick"))
