"""C06 (scoped) - values, gradients and convexity flags are truthful. TLC decides the exact reading: at lattice points of the
polynomial benchmark objectives, the eleven constraint kinds with integer coefficients and the tuner's surrogate functions the
five-point stencil along a lattice direction equals 12 h g.d exactly, value-only equals value+gradient, and declared convexity
(with the declared strong-convexity coefficient) satisfies the first-order inequality on lattice pairs; the values, the
(sub)gradients, the convexity inequality, the 0-1 / absolute error rules, non-negativity and per-sample locality of the losses are
re-computed on integer targets/outputs (PolyCalculus.tla). The transcendental kernels and the non-lattice prototypes are covered
by the driver's central-difference / tolerance oracles, which the same trace specification asserts (environment predicates)."""
import os
from concurrent.futures import ThreadPoolExecutor

import common
import trace
from common import CheckError

LEVEL = "other"
SPECDIR = os.path.join(common.SPEC, "calculus")
KNOWN_CLASSNLL = "s-classnll:single-output:negative-target:negative-loss"
KNOWN_LINEAR_MU = "linear-objective:l2>0:declared-strong-convexity-ignores-unregularised-bias"


def run(rep, tier):
    work = common.workdir("C06")
    exe = common.build_harness("calculus_driver")["calculus_driver"]
    nproc, cases = (6, 60) if tier == "quick" else (16, 600)

    def drive(i):
        out = os.path.join(work, "calculus_%d.ndjson" % i)
        rc, o, _ = common.run([exe, out, str(common.seed() * 1000 + i + 1), str(cases)], timeout=3000, check=False)
        rs = common.read_ndjson(out) if os.path.exists(out) else []
        crashed = rc != 0 or not rs or rs[-1].get("case") != -1
        bad = [x for x in rs if x["e"] in ("Abort", "Inexact")]
        info = [x for x in rs if x["e"] == "Info"]
        rs = [x for x in rs if x["e"] not in ("Abort", "Inexact", "Info", "Done")]
        known = []
        known_mu = []
        for x in rs:
            # second recorded finding: the linear objective declares mu = l2 / #weights although the bias is not regularised
            if x["e"] == "Generic" and x["fn"].startswith("linear-objective:") and x.get("l2") and x["convex"] and x["convexOK"] and not x["strongOK"]:
                known_mu.append(dict(x))
                x["strongOK"] = True
            # the recorded finding: one clause of one record is reported separately, the rest of the record is still validated
            if x["e"] == "Loss" and x["loss"] == "s-classnll" and x["t"] == [-1] and not x["nonneg"]:
                known.append(dict(x))
                x["nonneg"] = True
        acc, rejects, states = trace.validate_independent("PolyCalculus", "PolyCalculus.cfg", SPECDIR, rs, out + ".tlc", tag="c06_%d" % i)
        return crashed, o, bad, acc, rejects, rs, states, known, info, known_mu

    with ThreadPoolExecutor(nproc) as ex:
        results = list(ex.map(drive, range(nproc)))
    total = states = 0
    count = {"Stencil": 0, "Convex": 0, "Loss": 0, "Generic": 0}
    fns, losses, declared = set(), set(), 0
    for crashed, o, bad, acc, rejects, rs, st, known, info, known_mu in results:
        for kf in known_mu[:1]:
            rep.violation("the linear objective with l2 > 0 violates its declared strong-convexity inequality (bias not regularised): %s" % kf,
                          payload=kf, signature=KNOWN_LINEAR_MU)
        if crashed:
            rep.violation("calculus driver crashed", payload={"output": o[-3000:]})
        for b in bad[:3]:
            rep.violation("calculus driver: %s (a value / gradient at a lattice point is not on the lattice)" % b, payload=b)
        for kf in known[:1]:
            rep.violation("s-classnll with one output and a negative target has a negative (unbounded below) loss value: %s" % kf,
                          payload=kf, signature=KNOWN_CLASSNLL)
        total += acc
        states += st
        for ev in rejects:
            small = {k: (v if len(str(v)) < 200 else str(v)[:200] + "...") for k, v in ev.items()}
            rep.violation("calculus record disagrees with PolyCalculus.tla: %s" % small, payload=ev)
        for x in rs:
            count[x["e"]] += 1
            if x["e"] in ("Stencil", "Convex", "Generic"):
                fns.add(x["fn"].split(":")[0] + (":" + x["fn"].split(":")[1] if x["fn"].startswith("constraint") else ""))
            if x["e"] == "Convex" and x["declared"]:
                declared += 1
            if x["e"] == "Loss":
                losses.add(x["loss"])
    nfun = results[0][8][0]["functions"] if results[0][8] else 0
    nloss = results[0][8][0]["losses"] if results[0][8] else 0
    if not rep.violations and (count["Stencil"] < 1000 or declared < 500 or count["Loss"] < 2000 or len(losses) < nloss or nloss < 17):
        raise CheckError("calculus coverage too small: %s, %d declared-convex pairs, %d/%d losses" % (count, declared, len(losses), nloss))
    s0 = [x for x in results[0][5] if x["e"] == "Stencil"][0]
    rep.sample(s0)
    rep.sample([x for x in results[0][5] if x["e"] == "Loss" and x["base"] == "hinge"][0])
    rep.add(explanation="Scoped check. Exact (decided by TLC from recorded integers): 14 polynomial / piecewise-polynomial benchmark objectives "
                        "(dims 1..6), the 11 constraint kinds with integer coefficients (dims 1..4), the quadratic surrogate and its mse fitting "
                        "objective at lattice points: 12 h g.d = -f(x+2hd) + 8f(x+hd) - 8f(x-hd) + f(x-2hd), value-only = value+gradient, and "
                        "f(z) >= f(x) + g.(z-x) + floor(mu |z-x|^2)/2 whenever convexity is declared; mse/mae/hinge/squared-hinge/pinball values, "
                        "(sub)gradients, convexity inequality on integer targets/outputs; the absolute / multi-label / arg-max (first maximum) "
                        "error rules for all 17 losses; non-negativity; per-sample locality. Oracle part (asserted, not re-computed, by TLC): "
                        "central differences along a random direction and the convexity inequality with a 1e-9 relative tolerance for all "
                        "%d registered function prototypes at dims 1..32 in boxes of radius 1e-3..10 and for the exp/log/atan losses with "
                        "real-valued outputs in [-30, 30] (all 17 losses; error rules recomputed on the real predictions). NOT covered: adversarial "
                        "hill-climbing on the violation, the linear/gboost objectives (their exact lattice gradients and the definition oracle over all "
                        "losses are part of C09)." % nfun,
            evaluations=total, distinct_nontrivial=count["Stencil"] + declared + count["Loss"], records=count, functions=sorted(fns),
            losses=sorted(losses), declared_convex_pairs=declared, states=states, transitions=states, traces_validated_against_impl=total)
    rep.assume("partial claim: exact on the lattice, oracle-based elsewhere")
    rep.assume("single-label targets are one-hot (one output: either sign); symmetric P in quadratic constraints")


def replay(rep, path):
    run(rep, "quick")
