"""C04 - interior-point LP/QP: (M) TLC on InteriorPoint.tla (status protocol), (R/E) small integer LPs decided exactly by
TLC (vertex enumeration, LinProg.tla) and compared with the solver's status/objective, (V) KKT-constructed programs, planted
infeasible/unbounded programs, bad starts and equivalent restatements validated against ProgramTrace.tla; extra cases: permuted
rows, programs stated as several constraint blocks, programs without inequalities, further planted infeasible / unbounded programs,
generic interior user starts."""
import os
from concurrent.futures import ThreadPoolExecutor

import common
import trace
from common import CheckError

LEVEL = "exploration"
SPECDIR = os.path.join(common.SPEC, "program")


def run(rep, tier):
    work = common.workdir("C04")
    r = common.tlc("InteriorPoint", "InteriorPoint.cfg", SPECDIR, workers=2, timeout=600)
    rep.add_tlc(r, "InteriorPoint.tla (status protocol, all outcome sequences of 4 iterations)")
    if not r.ok:
        if r.invariant_violated:
            rep.violation("InteriorPoint.tla violates %s" % r.invariant_violated, payload=r.out[-4000:])
        else:
            raise CheckError("TLC failed on InteriorPoint:\n" + r.out[-3000:])
    exe = common.build_harness("program_driver")["program_driver"]
    nproc, ns, nk, np_, nx = (8, 200, 400, 150, 240) if tier == "quick" else (16, 2000, 4000, 1500, 2400)

    def drive(i):
        out = os.path.join(work, "program_%d.ndjson" % i)
        rc, o, _ = common.run([exe, out, str(common.seed() * 1000 + i + 1), str(ns), str(nk), str(np_), str(nx)], timeout=3000, check=False)
        rs = common.read_ndjson(out) if os.path.exists(out) else []
        crashed = rc != 0 or not rs or rs[-1].get("case") != -1
        bad = [x for x in rs if x["e"] in ("Abort", "Timeout")]
        rs = [x for x in rs if x["e"] not in ("Abort", "Timeout")]
        acc, rejects, states = trace.validate_independent("ProgramTrace", "ProgramTrace.cfg", SPECDIR, rs, out + ".tlc", tag="c04_%d" % i)
        return crashed, o, bad, acc, rejects, rs

    with ThreadPoolExecutor(nproc) as ex:
        results = list(ex.map(drive, range(nproc)))
    total = nconv = ninf = npairs = nconv_all = 0
    extra = {"rowperm": 0, "blocks": 0, "noineq": 0, "interior": 0, "plant": 0}
    for crashed, o, bad, acc, rejects, rs in results:
        if crashed:
            rep.violation("program driver crashed", payload={"output": o[-3000:]})
        for b in bad[:3]:
            rep.violation("program driver: %s" % b, payload=b)
        total += acc
        for ev in rejects:
            rep.violation("interior-point run violates ProgramTrace.tla: %s" % str(ev)[:600], payload=ev)
        for x in rs:
            # (the first three counters: the original families only, their floors are not helped by the extra cases)
            if x["e"] in ("Small", "Kkt") and x["status"] == "converged":
                nconv_all += 1
                if "fam" not in x:
                    nconv += 1
            if x["e"] == "Kkt" and x["label"] in ("infeasible", "unbounded") and "fam" not in x:
                ninf += 1
            if x["e"] == "Pair" and x["statusA"] == "converged" and x["statusB"] == "converged":
                if x["what"] == "permuted rows":
                    extra["rowperm"] += 1
                else:
                    npairs += 1
            if x["e"] == "Blocks" and x["statusA"] == "converged" and x["statusB"] == "converged" and x["blocks"] >= 3:
                extra["blocks"] += 1
            if x["e"] == "Kkt" and x.get("fam") == "noineq" and x["status"] == "converged":
                extra["noineq"] += 1
            if x["e"] == "Kkt" and x.get("fam") == "interior" and x["label"] == "interior" and x["status"] == "converged":
                extra["interior"] += 1
            if x["e"] == "Kkt" and x.get("fam") in ("plant", "noineq") and x["label"] in ("infeasible", "unbounded"):
                extra["plant"] += 1
    if not rep.violations and (nconv < 300 or ninf < 50 or npairs < 50):
        raise CheckError("program coverage too small: %d converged, %d planted infeasible/unbounded, %d converged pairs" % (nconv, ninf, npairs))
    rep.sample([x for x in results[0][5] if x["e"] == "Small"][0])
    rep.sample([x for x in results[0][5] if x["e"] == "Kkt"][0])
    rep.sample([x for x in results[0][5] if x["e"] == "Pair"][0])
    floors = {"rowperm": 40, "blocks": 40, "noineq": 25, "interior": 40, "plant": 100}
    if not rep.violations and any(extra[k] < v for k, v in floors.items()):
        raise CheckError("program coverage of the extra cases too small (converged runs / planted programs): %s" % extra)
    rep.sample([x for x in results[0][5] if x["e"] == "Blocks"][0])
    rep.add(traces_validated_against_impl=total, evaluations=total, distinct_nontrivial=nconv_all, converged_runs=nconv_all,
            planted_infeasible_or_unbounded=ninf, converged_pairs=npairs,
            converged_rowperm_pairs=extra["rowperm"], converged_block_pairs=extra["blocks"], converged_without_inequalities=extra["noineq"],
            converged_interior_starts=extra["interior"], further_planted=extra["plant"],
            rule="Small: random integer LPs, n<=3, box + up to 6 rows, coefficients in -3..3 (feasible or not); Kkt: LPs / convex QPs (Q = D'D "
                 "possibly rank-deficient), n 1..12, 0..n-1 equalities, 1..2n+2 inequalities, optimum fixed by KKT construction with random active "
                 "sets, magnitudes 1e-2..1e2, plus planted infeasible / unbounded programs and non-strictly-feasible starts; Pair: equivalent "
                 "restatements (scaled / duplicated / combined rows, permuted variables, permuted rows); Blocks: box programs stated in one block "
                 "and as 1..5 blocks (make_less / make_greater with scalar or vector bounds, row and matrix overloads, two argument orders); "
                 "Kkt/noineq: LPs / QPs with equalities only or no constraint (optimum by construction, unbounded along an exact null direction "
                 "of Q or a free linear objective, exactly inconsistent dyadic equalities); Kkt/plant: recession rays with G d < 0, A d = 0, "
                 "Q d = 0, inconsistent equalities, an equality against an inequality; Kkt/interior: strictly interior user starts at distance "
                 "0.3..10 from x*, off the equalities; non-trivial = runs reporting `converged`")
    rep.assume("every tolerance comparison on real data (feasibility 1e-6, objective agreement, the 1e-8 M (...) gap bound) is computed by the driver "
               "on the program as the caller stated it; TLC decides the small integer programs exactly (feasibility; optimum within 2e-3) and the "
               "status clauses")


def replay(rep, path):
    run(rep, "quick")
