"""C09 - ML objectives: (M) TLC on MapReduce.tla (all chunk/worker schedules), (E) TLC re-computes the linear and
gradient-boosting objectives with their gradients on the integer lattice (Objective.tla), (V) partition of the samples shown
to a recording loss and invariance under threads / batch / caching (ObjectiveTrace.tla)."""
import os
from concurrent.futures import ThreadPoolExecutor

import common
import trace
from common import CheckError

LEVEL = "exploration"
SPECDIR = os.path.join(common.SPEC, "objective")


def run(rep, tier):
    work = common.workdir("C09")
    r = common.tlc("MapReduce", "MapReduce.cfg", SPECDIR, workers=8, timeout=900)
    rep.add_tlc(r, "MapReduce.tla (5 samples, 3 workers, batch sizes 1,2,3,5,6: all schedules)")
    if not r.ok:
        if r.invariant_violated:
            rep.violation("MapReduce.tla violates %s" % r.invariant_violated, payload=r.out[-4000:])
        else:
            raise CheckError("TLC failed on MapReduce:\n" + r.out[-3000:])
    exe = common.build_harness("objective_driver")["objective_driver"]
    nproc, cases = (8, 120) if tier == "quick" else (16, 1200)

    def drive(i):
        out = os.path.join(work, "objective_%d.ndjson" % i)
        rc, o, _ = common.run([exe, out, str(common.seed() * 1000 + i + 1), str(cases)], timeout=3000, check=False)
        rs = common.read_ndjson(out) if os.path.exists(out) else []
        crashed = rc != 0 or not rs or rs[-1].get("case") != -1
        bad = [x for x in rs if x["e"] in ("Abort", "Inexact")]
        rs = [x for x in rs if x["e"] not in ("Abort", "Inexact")]
        acc, rejects, states = trace.validate_independent("ObjectiveTrace", "ObjectiveTrace.cfg", SPECDIR, rs, out + ".tlc", tag="c09_%d" % i)
        return crashed, o, bad, acc, rejects, rs

    with ThreadPoolExecutor(nproc) as ex:
        results = list(ex.map(drive, range(nproc)))
    total = 0
    kinds = {}
    for crashed, o, bad, acc, rejects, rs in results:
        if crashed:
            rep.violation("objective driver crashed", payload={"output": o[-3000:]})
        for b in bad[:3]:
            rep.violation("objective driver: %s (an objective value on the exact lattice is not exact, or an exception)" % b, payload=b)
        total += acc
        for ev in rejects:
            small = {k: (v if len(str(v)) < 160 else str(v)[:160] + "...") for k, v in ev.items()}
            rep.violation("recorded objective evaluation disagrees with its definition / partition / invariance: %s" % small, payload=ev)
        for x in rs:
            kinds[x["e"]] = kinds.get(x["e"], 0) + 1
    if not rep.violations and (kinds.get("Lin", 0) < 500 or kinds.get("Part", 0) < 1000):
        raise CheckError("objective coverage too small: %s" % kinds)
    rep.sample({k: (v if len(str(v)) < 300 else str(v)[:300] + "...") for k, v in [x for x in results[0][5] if x["e"] == "Lin"][0].items()})
    rep.sample([x for x in results[0][5] if x["e"] == "Part"][1])
    rep.add(traces_validated_against_impl=total, evaluations=total, distinct_nontrivial=kinds.get("Lin", 0) + kinds.get("Scale", 0), records=kinds,
            rule="lattice evaluations: 1..40 samples, 1..4 integer features (+ a 3-class, a multi-label, a structured feature) with missing "
                 "values, integer / 3-class / multi-label / structured (2..3 outputs) targets, mse / mae, integer W, b, l1, l2 in {0,1,4}, cluster "
                 "assignments incl. unassigned, integer weak-learner outputs; sample lists: all, sorted subsets, shuffled subsets, with repetitions "
                 "(sorted or not); every function object evaluated with its gradient at two (lattice) or three (float oracle) points; partition / "
                 "invariance: 1..200 samples, threads {1,2,3,5,16} x batch {1..10000} x cached/uncached, also cauchy / pinball losses")
    rep.assume("the exact definition check covers the piecewise-polynomial losses (mse, mae) with scaling `none`; for transcendental losses only "
               "partition and invariance (1e-9 relative) are checked",
               "the flattened inputs come from dataset_t::flatten (checked by C08) with missing values replaced by 0")


def replay(rep, path):
    run(rep, "quick")
