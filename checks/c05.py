"""C05 - penalty functions and the augmented-Lagrangian solver: (M) TLC on AugLag.tla (all criterion/validity/closeness
sequences of the outer loop), (E) TLC re-computes every recorded evaluation of the three penalty functions on the integer
lattice (Penalty.tla), (V) return contract of the constrained solvers on random problems."""
import os
from concurrent.futures import ThreadPoolExecutor

import common
import trace
from common import CheckError

LEVEL = "model_checking"
SPECDIR = os.path.join(common.SPEC, "penalty")


def run(rep, tier):
    work = common.workdir("C05")
    r = common.tlc("AugLag", "AugLag.cfg", SPECDIR, workers=4, timeout=600)
    rep.add_tlc(r, "AugLag.tla (outer loop: criteria over 4 values x validity x closeness, 6 outer iterations)")
    if not r.ok:
        if r.invariant_violated:
            rep.violation("AugLag.tla violates %s" % r.invariant_violated, payload=r.out[-4000:])
        else:
            raise CheckError("TLC failed on AugLag:\n" + r.out[-3000:])
    exe = common.build_harness("penalty_driver")["penalty_driver"]
    nproc, nl, ns = (8, 400, 150) if tier == "quick" else (16, 4000, 1500)

    def drive(i):
        out = os.path.join(work, "pen_%d.ndjson" % i)
        rc, o, _ = common.run([exe, out, str(common.seed() * 1000 + i + 1), str(nl), str(ns)], timeout=3000, check=False)
        rs = common.read_ndjson(out) if os.path.exists(out) else []
        crashed = rc != 0 or not rs or rs[-1].get("case") != -1
        bad = [x for x in rs if x["e"] in ("Abort", "Inexact")]
        rs = [x for x in rs if x["e"] not in ("Abort", "Inexact")]
        acc, rejects, states = trace.validate_independent("PenaltyTrace", "PenaltyTrace.cfg", SPECDIR, rs, out + ".tlc", tag="c05_%d" % i)
        return crashed, o, bad, acc, rejects, rs

    with ThreadPoolExecutor(nproc) as ex:
        results = list(ex.map(drive, range(nproc)))
    total = npen = nconv = 0
    kinds = set()
    for crashed, o, bad, acc, rejects, rs in results:
        if crashed:
            rep.violation("penalty driver crashed", payload={"output": o[-3000:]})
        for b in bad[:3]:
            rep.violation("penalty driver: %s (a value on the exact lattice is not exact, or a solver threw)" % b, payload=b)
        total += acc
        for ev in rejects:
            what = "penalty evaluation disagrees with Penalty.tla" if ev["e"] == "Pen" else "constrained solver violates the return contract"
            rep.violation("%s: %s" % (what, str(ev)[:600]), payload=ev)
        for x in rs:
            if x["e"] == "Pen":
                npen += 1
                for c in x["cs"]:
                    kinds.add(c["kind"])
            elif x["e"] == "Solve" and x["solver"] == "augmented-lagrangian" and x["status"] == "converged":
                nconv += 1
    if not rep.violations and (npen < 1000 or len(kinds) < 11 or nconv < 50):
        raise CheckError("penalty coverage too small: %d evaluations, kinds %s, %d converged AL runs" % (npen, sorted(kinds), nconv))
    rep.sample([x for x in results[0][5] if x["e"] == "Pen" and x["ncons"] >= 2][0])
    rep.sample([x for x in results[0][5] if x["e"] == "Solve"][0])
    rep.add(traces_validated_against_impl=total, penalty_evaluations=npen, constraint_kinds=sorted(kinds), converged_al_runs=nconv)
    rep.assume("lattice: integer points in [-4,4]^n (n<=4), integer coefficients, rho in {1,2,4,8}, integer multipliers; the AL value is "
               "compared after scaling by 2 rho; penalties up to 1e6 and non-lattice points are outside what TLC can judge",
               "feasibility at the returned point (|h| <= eps, max(0,g) <= eps) and bit-equality of the stored constraint values / KKT tests 1-2 "
               "are recomputed by the driver from the problem as stated")


def replay(rep, path):
    run(rep, "quick")
