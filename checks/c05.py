"""C05 - penalty functions and the augmented-Lagrangian solver: (M) TLC on AugLag.tla (all criterion/validity/closeness
sequences of the outer loop), (E) TLC re-computes every recorded evaluation of the three penalty functions on the integer
lattice (Penalty.tla), (V) return contract of the constrained solvers on random problems."""
import os
from concurrent.futures import ThreadPoolExecutor

import common
import trace
from common import CheckError

LEVEL = "model_checking"
SPECDIR = os.path.join(common.SPEC, "penalty")


def run(rep, tier):
    work = common.workdir("C05")
    r = common.tlc("AugLag", "AugLag.cfg", SPECDIR, workers=4, timeout=600)
    rep.add_tlc(r, "AugLag.tla (outer loop: criteria over 4 values x validity x closeness, 6 outer iterations)")
    if not r.ok:
        if r.invariant_violated:
            rep.violation("AugLag.tla violates %s" % r.invariant_violated, payload=r.out[-4000:])
        else:
            raise CheckError("TLC failed on AugLag:\n" + r.out[-3000:])
    exe = common.build_harness("penalty_driver")["penalty_driver"]
    nproc, nl, ns = (8, 400, 150) if tier == "quick" else (16, 4000, 1500)

    def drive(i):
        out = os.path.join(work, "pen_%d.ndjson" % i)
        rc, o, _ = common.run([exe, out, str(common.seed() * 1000 + i + 1), str(nl), str(ns)], timeout=3000, check=False)
        rs = common.read_ndjson(out) if os.path.exists(out) else []
        crashed = rc != 0 or not rs or rs[-1].get("case") != -1
        bad = [x for x in rs if x["e"] in ("Abort", "Inexact")]
        rs = [x for x in rs if x["e"] not in ("Abort", "Inexact")]
        acc, rejects, states = trace.validate_independent("PenaltyTrace", "PenaltyTrace.cfg", SPECDIR, rs, out + ".tlc", tag="c05_%d" % i)
        return crashed, o, bad, acc, rejects, rs

    with ThreadPoolExecutor(nproc) as ex:
        results = list(ex.map(drive, range(nproc)))
    total = npen = nconv = nprog = nplanted = nreused = nshaken = 0
    kinds = set()
    for crashed, o, bad, acc, rejects, rs in results:
        if crashed:
            rep.violation("penalty driver crashed", payload={"output": o[-3000:]})
        for b in bad[:3]:
            rep.violation("penalty driver: %s (a value on the exact lattice is not exact, or a solver threw)" % b, payload=b)
        total += acc
        for ev in rejects:
            what = ("penalty evaluation disagrees with Penalty.tla" if ev["e"] == "Pen" else
                    "nano::make_function(program) disagrees with the program as stated" if ev["e"] == "Prog" else
                    "constrained solver violates the return contract")
            rep.violation("%s: %s" % (what, str(ev)[:600]), payload=ev)
        for x in rs:
            if x["e"] == "Pen":
                npen += 1
                nreused += 1 if x.get("how") in ("reused", "clone") else 0
                for c in x["cs"]:
                    kinds.add(c["kind"])
            elif x["e"] == "Prog":
                nprog += 1
            elif x["e"] == "Solve" and x["solver"] == "augmented-lagrangian":
                nconv += 1 if x["status"] == "converged" else 0
                nplanted += 1 if x.get("planted") else 0
                nshaken += 1 if x.get("shaken") else 0
    if not rep.violations and (npen < 1000 or len(kinds) < 11 or nconv < 50 or nprog < 100 or nplanted < 10 or nreused < 300 or nshaken < 50):
        raise CheckError("penalty coverage too small: %d evaluations (%d on re-used / cloned objects), kinds %s, %d converged AL runs, %d converted "
                         "programs, %d AL runs on planted empty feasible sets, %d AL runs with drawn parameters"
                         % (npen, nreused, sorted(kinds), nconv, nprog, nplanted, nshaken))
    rep.sample([x for x in results[0][5] if x["e"] == "Pen" and x["ncons"] >= 2][0])
    rep.sample([x for x in results[0][5] if x["e"] == "Solve"][0])
    rep.add(traces_validated_against_impl=total, penalty_evaluations=npen, constraint_kinds=sorted(kinds), converged_al_runs=nconv,
            evaluations_of_reused_or_cloned_objects=nreused, converted_programs=nprog, al_runs_on_empty_feasible_sets=nplanted,
            al_runs_with_drawn_parameters=nshaken)
    rep.assume("lattice: integer points in [-4,4]^n (n<=4), integer coefficients, rho in {1,2,4,8}, integer multipliers; the AL value is "
               "compared after scaling by 2 rho; penalties up to 1e6 and non-lattice points are outside what TLC can judge",
               "linear / quadratic programs with integer data converted by nano::make_function: objective, gradient and the constraint set "
               "{A x - b, G x - h} (matched by kind, gradient, value) equal the driver's exact evaluation; with diagonal Q their penalty functions "
               "are re-computed by TLC as well; the same penalty objects are evaluated again after penalty() / in-place multiplier changes / clone()",
               "solver problems: hand-made constraint sets, no constraint at all, random convex LPs/QPs converted by nano::make_function, and planted "
               "empty feasible sets (parallel hyperplanes, ball vs. half-space; `converged` must not be reported); outer-loop parameters (epsilon0, "
               "epsilonK in (0, 1] down to 1e-12, tau, gamma, miu_max, lambda clamps, eta, penalty0) drawn in their domains in half of the runs",
               "feasibility at the returned point (|h| <= eps, max(0,g) <= eps) and bit-equality of the stored constraint values / KKT tests 1-2 "
               "are recomputed by the driver from the problem as stated")


def replay(rep, path):
    run(rep, "quick")
