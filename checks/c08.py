"""C08 - dataset views: (M) TLC explores all drop/shuffle/undo histories of DatasetModel.tla; (V) random data sources and
generator stacks (also restricted to feature subsets / pairs) behind real dataset_t objects (ASan/UBSan build), random operation
histories, every view (direct calls with fresh and re-used buffers, empty sample lists, select_iterator_t loops) read back after
every operation and re-computed by TLC (DatasetTrace.tla)."""
import os
from concurrent.futures import ThreadPoolExecutor

import common
import sets
import trace
from common import CheckError

LEVEL = "model_checking"
SPECDIR = os.path.join(common.SPEC, "dataset")


def run(rep, tier):
    work = common.workdir("C08")
    # the sample-selection bookkeeping underneath (cluster_t / testing marks): SampleSets.tla, every edge replayed on the real objects
    sets.run(rep, "C08", tier)
    r = common.tlc("DatasetModel", "DatasetModel.cfg", SPECDIR, workers=8, timeout=900)
    rep.add_tlc(r, "DatasetModel.tla (all drop/undrop/shuffle/unshuffle histories, 3 features x 3 samples, all permutations)")
    if not r.ok:
        if r.invariant_violated or r.property_violated:
            rep.violation("DatasetModel.tla violates %s" % (r.invariant_violated or "an action property"), payload=r.out[-4000:])
        else:
            raise CheckError("TLC failed on DatasetModel:\n" + r.out[-3000:])
    exe = common.build_harness("dataset_driver", "asan")["dataset_driver"]
    nproc, cases = (8, 40) if tier == "quick" else (16, 300)
    env = {"ASAN_OPTIONS": "detect_leaks=0:abort_on_error=0", "UBSAN_OPTIONS": "print_stacktrace=1"}

    def drive(i):
        out = os.path.join(work, "dataset_%d.ndjson" % i)
        rc, o, _ = common.run([exe, out, str(common.seed() * 1000 + i + 1), str(cases)], timeout=2400, check=False, env=env)
        rs = common.read_ndjson(out) if os.path.exists(out) else []
        crashed = rc != 0 or not rs or rs[-1].get("case") != -1
        bad = [x for x in rs if x["e"] in ("Abort", "Inexact")]
        rs = [x for x in rs if x["e"] not in ("Abort", "Inexact")]
        acc, rejects, tl = trace.validate("DatasetTrace", "DatasetTrace.cfg", SPECDIR, rs, out + ".tlc", tag="c08_%d" % i, timeout=2400)
        return crashed, o, bad, acc, rejects, rs

    with ThreadPoolExecutor(nproc) as ex:
        results = list(ex.map(drive, range(nproc)))
    total = nviews = nops = nbad = niter = nempty = 0
    kinds, probes = set(), set()
    for crashed, o, bad, acc, rejects, rs in results:
        if crashed:
            rep.violation("dataset driver crashed or was stopped by a sanitizer", payload={"output": o[-4000:]})
        for b in bad[:3]:
            rep.violation("dataset driver: %s" % b, payload=b)
        total += acc
        for rj in rejects:
            ev = rj["event"] or {}
            small = {k: (v if not isinstance(v, list) or len(str(v)) < 300 else "[...]") for k, v in ev.items()}
            head = rj["execution"][0]
            rep.violation("dataset history rejected at %s (schema: %s)" % (str(small)[:500], str(head.get("feats"))[:300]),
                          payload={"event": ev, "history": [x for x in rj["execution"] if x["e"] in ("Reset", "Op")][:12]})
        for x in rs:
            if x["e"] == "Views":
                nviews += 1
                nempty += 0 if x["samples"] else 1
            elif x["e"] == "Iter":
                niter += 1
            elif x["e"] == "Op":
                nops += 1
            elif x["e"] == "Bad":
                nbad += 1
                probes.add(x["what"] + ":" + x.get("via", ""))
            elif x["e"] == "Reset":
                for f in x["feats"]:
                    kinds.add(f["kind"])
    if not rep.violations and (nviews < 500 or len(kinds) < 5 or niter < 200 or nempty < 20 or len(probes) < 16):
        raise CheckError("dataset driver coverage too small: %d view records (%d empty), %d iterator records, kinds %s, probes %s"
                         % (nviews, nempty, niter, kinds, sorted(probes)))
    ex0 = [x for x in results[0][5] if x["e"] in ("Reset", "Op")][:5]
    rep.sample({"history": [{k: (v if len(str(v)) < 200 else str(v)[:200] + "...") for k, v in x.items()} for x in ex0]})
    rep.add(traces_validated_against_impl=total, view_records=nviews, empty_sample_lists=nempty, iterator_records=niter, operations=nops,
            bad_index_probes=nbad, bad_index_entry_points=sorted(probes), feature_kinds=sorted(kinds))
    rep.assume("stored values are small integers (exact in every storage type); NaN is logged as a marker",
               "the sources of a generated feature are taken from the descriptor the dataset reports (identity: the source's name; product(a,b))",
               "select_iterator_t: what the callbacks receive is compared by the driver with the direct select() call on the same samples (exact, "
               "NaN = NaN) and enters TLC as a boolean; visit counts / callback kinds per feature are checked by TLC",
               "which features a generator stack has to generate (subsets 'if of the appropriate type', unordered pairs for the product) is "
               "computed by the driver (stackOK)",
               "the gradient generator (sqrt/atan2 of real values) is not covered",
               "driver and library compiled with -fsanitize=address,undefined: an out-of-range read stops the driver")


def replay(rep, path):
    run(rep, "quick")
