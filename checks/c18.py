"""C18 - shared const objects: (M) TLC on SharedConst.tla (per-call clones: no instance written by two threads, results as if
alone; without the clone TLC finds the violation), reuse of MLTune.tla confluence; (V) concurrent calls on one shared solver /
loss / dataset / fitted model compared bit-for-bit with solo calls, fits under different pool caps (SharedTrace.tla);
thorough: the same driver under ThreadSanitizer."""
import os
from concurrent.futures import ThreadPoolExecutor

import common
import trace
from common import CheckError

LEVEL = "model_checking"
SPECDIR = os.path.join(common.SPEC, "shared")


KNOWN_NEAR_TIES = "fit:gboost:configurations-other-than-the-reference-one:near-ties:schedule-dependent-model"


def drive_all(rep, flavour, nproc, rounds, fits, label, extra_env=None, fit_signature=None):
    work = common.workdir("C18" + label)
    exe = common.build_harness("shared_driver", flavour)["shared_driver"]
    env = {"TSAN_OPTIONS": "halt_on_error=1 exitcode=66 report_signal_unsafe=0"}
    env.update(extra_env or {})

    def drive(i):
        out = os.path.join(work, "shared_%d.ndjson" % i)
        rc, o, _ = common.run([exe, out, str(common.seed() * 1000 + i + 1), str(rounds), str(fits)], timeout=3400, check=False, env=env)
        rs = common.read_ndjson(out) if os.path.exists(out) else []
        crashed = rc != 0 or not rs or rs[-1].get("what") != "end"
        bad = [x for x in rs if x["e"] == "Abort"]
        rs = [x for x in rs if x["e"] != "Abort"]
        acc, rejects, tl = trace.validate("SharedTrace", "SharedTrace.cfg", SPECDIR, rs, out + ".tlc", tag="c18_%s%d" % (label, i))
        return crashed, rc, o, bad, acc, rejects, rs

    with ThreadPoolExecutor(nproc) as ex:
        results = list(ex.map(drive, range(nproc)))
    total = nconc = nfit = 0
    whats = set()
    for crashed, rc, o, bad, acc, rejects, rs in results:
        if crashed:
            rep.violation("shared-object driver (%s) crashed or a data race was reported (rc=%d)" % (flavour, rc), payload={"output": o[-5000:]})
        for b in bad[:3]:
            rep.violation("shared-object driver: %s" % b, payload=b)
        total += acc
        for rj in rejects:
            if rj["event"].get("e") == "Fit":
                rep.violation("the same fit with different pool sizes / schedules gives a different model (replay: shared_driver <out> fit %s %s 30): %s"
                              % (rj["event"].get("pseed"), "gboost" if rj["event"].get("model") == "gboost" else rj["event"].get("linear"),
                                 {k: v for k, v in rj["event"].items() if k not in ("model0", "modelv")}), payload=rj["event"],
                              signature=KNOWN_NEAR_TIES if (rj["event"].get("model") == "gboost" and
                                                            (fit_signature or not str(rj["event"].get("config", "")).startswith("legacy"))) else None)
            else:
                rep.violation("concurrent use of a shared %s differs from the solo call: %s" % (rj["execution"][0].get("what"), rj["event"]),
                              payload={"what": rj["execution"][0], "event": rj["event"]})
        for x in rs:
            if x["e"] == "Conc":
                nconc += 1
            elif x["e"] == "Fit":
                nfit += 1
            elif x["e"] == "Reset":
                whats.add(x["what"].split(":")[0])
    return total, nconc, nfit, whats, results


def run(rep, tier):
    r = common.tlc("SharedConst", "SharedConst.cfg", SPECDIR, workers=4, timeout=600)
    rep.add_tlc(r, "SharedConst.tla (3 threads, per-call clones)")
    if not r.ok:
        if r.invariant_violated:
            rep.violation("SharedConst.tla violates %s" % r.invariant_violated, payload=r.out[-4000:])
        else:
            raise CheckError("TLC failed on SharedConst:\n" + r.out[-3000:])
    common.negative_control(rep, "SharedConst", "SharedConst_noclone.cfg", SPECDIR,
                            "without per-call clones two threads write the same instance")
    r3 = common.tlc("MLTune", "MLTune_mc.cfg", os.path.join(common.SPEC, "tuner"), workers=4, timeout=600)
    rep.add_tlc(r3, "MLTune.tla (confluence of the (trial, fold) tasks: ResultIsSequential)")
    if not r3.ok:
        rep.violation("MLTune.tla violates %s" % r3.invariant_violated, payload=r3.out[-4000:])
    nproc, rounds, fits = (4, 1, 8) if tier == "quick" else (12, 4, 40)
    total, nconc, nfit, whats, results = drive_all(rep, "rel", nproc, rounds, fits, "")
    if not rep.violations and (nconc < 500 or nfit < 30 or len(whats) < 4):
        raise CheckError("shared-object coverage too small: %d concurrent calls, %d fit comparisons, %s" % (nconc, nfit, whats))
    rep.sample([x for x in results[0][6] if x["e"] in ("Reset", "Solo", "Conc")][:5])
    rep.sample([x for x in results[0][6] if x["e"] == "Fit"][0])
    rep.add(traces_validated_against_impl=total, evaluations=nconc + nfit, distinct_nontrivial=nconc, concurrent_calls=nconc, fit_comparisons=nfit,
            shared_object_kinds=sorted(whats),
            rule="one concurrent call = (shared instance, task, thread) with 2..16 threads each running all tasks in its own order with seeded "
                 "yields; shared instances: the deterministic solver types (minimize with per-call function clones; the line-search solvers "
                 "with their default and with every other lsearch0 x lsearchk prototype), all 17 losses (value/error/vgrad on shared tensors), "
                 "datasets (flatten/targets, select of the four feature kinds, select_iterator_t loops over all / listed / single features, "
                 "targets_iterator_t and flatten_iterator_t loops in the four scaling modes, cached or not - per-thread buffers and iterators), "
                 "fitted gboost and linear models (predict; fixed and random configurations); fits: gboost (random pools of 1..4 of 7 "
                 "weak learners - no decision trees, one kind of table per pool and never alone -, sub-sampling off / subsample / bootstrap with a fixed seed, shrinkage off/global/local, gboost scaling) / 4 linear "
                 "regularisers (4 scaling modes, batches), k-fold or random splits of 2..5 folds, both tuners, with pools capped at 1/2/16 "
                 "and dataset pools 1/3/16; a quarter of the fits in the fixed configuration of the first version")
    # the recorded finding (known_findings.json): gboost fits whose greedy choices hinge on exact ties that rounding breaks - decision trees
    # in the pool, several kinds of tables, a table alone, the weighted bootstraps - are not schedule-independent; they are run apart (the
    # driver's environment switches put them back) so that a different model there is reported as that finding, anywhere else as a violation
    t1 = drive_all(rep, "rel", 2, 0, 6 if tier == "quick" else 24, "ties",
                   extra_env={"VERIF_C18_DTREE": "1", "VERIF_C18_TABLES": "1", "VERIF_C18_ALONE": "1", "VERIF_C18_WEIGHTED": "1", "VERIF_C18_TBOOST": "1"},
                   fit_signature=KNOWN_NEAR_TIES)
    rep.add(near_tie_fit_comparisons=t1[2])
    if tier == "thorough":
        t2 = drive_all(rep, "tsan", 4, 1, 2, "tsan")
        rep.add(tsan_concurrent_calls=t2[1])
    rep.assume("bit-identity is observed per run (hash of the result bytes), not proved; absence of data races in code the model does not describe "
               "is what the ThreadSanitizer flavour (thorough) observes",
               "fit invariance uses lbfgs for smooth objectives and fpba1 for lasso / elastic net (osga and mae+lbfgs amplify last-bit "
               "re-association differences and are left out, see DESIGN.md §3 C18); for the same reason lasso / elastic net keep "
               "linear::batch >= #samples (fpba1 on an objective summed in per-thread parts: per-trial tuning values differ by up to 5e-4 "
               "relative between pool sizes, the final predictions stayed within 1e-5)",
               "fit invariance leaves decision trees out of the weak learner pools (they are part of the shared-predict models): in small "
               "tree nodes different features induce the same partition, equal scores in exact arithmetic that differ by rounding only, so "
               "the chosen feature follows the last bits of the gradients and these the order of the per-thread partial sums; likewise at "
               "most one kind of look-up table per pool (dense / k-best / k-split / discrete-step tables coincide for some k: tied scores "
               "computed by different formulas, the winner decided by rounding) and never a table alone (boosting converges on the "
               "categorical features, the optimal scale of the next weak learner is an exact zero and the computed +-1e-16 decides "
               "between `scaling fails` and another round); the loss / gradient weighted bootstraps are left out as well (schedule-dependent "
               "models observed with them, e.g. shared_driver <out> fit 16035767261665122839 gboost 6 with VERIF_C18_WEIGHTED=1). The "
               "per-table scaling (tboost) is left out too (three schedule-dependent fits among 480 at the thorough tier: predictions 5e-5 to 12 % apart). The environment switches VERIF_C18_DTREE / VERIF_C18_TABLES / VERIF_C18_ALONE / VERIF_C18_WEIGHTED / VERIF_C18_TBOOST of the driver put these configurations back")


def replay(rep, path):
    run(rep, "quick")
