"""C18 - shared const objects: (M) TLC on SharedConst.tla (per-call clones: no instance written by two threads, results as if
alone; without the clone TLC finds the violation), reuse of MLTune.tla confluence; (V) concurrent calls on one shared solver /
loss / dataset / fitted model compared bit-for-bit with solo calls, fits under different pool caps (SharedTrace.tla);
thorough: the same driver under ThreadSanitizer."""
import os
from concurrent.futures import ThreadPoolExecutor

import common
import trace
from common import CheckError

LEVEL = "model_checking"
SPECDIR = os.path.join(common.SPEC, "shared")


def drive_all(rep, flavour, nproc, rounds, fits, label):
    work = common.workdir("C18" + label)
    exe = common.build_harness("shared_driver", flavour)["shared_driver"]
    env = {"TSAN_OPTIONS": "halt_on_error=1 exitcode=66 report_signal_unsafe=0"}

    def drive(i):
        out = os.path.join(work, "shared_%d.ndjson" % i)
        rc, o, _ = common.run([exe, out, str(common.seed() * 1000 + i + 1), str(rounds), str(fits)], timeout=3400, check=False, env=env)
        rs = common.read_ndjson(out) if os.path.exists(out) else []
        crashed = rc != 0 or not rs or rs[-1].get("what") != "end"
        bad = [x for x in rs if x["e"] == "Abort"]
        rs = [x for x in rs if x["e"] != "Abort"]
        acc, rejects, tl = trace.validate("SharedTrace", "SharedTrace.cfg", SPECDIR, rs, out + ".tlc", tag="c18_%s%d" % (label, i))
        return crashed, rc, o, bad, acc, rejects, rs

    with ThreadPoolExecutor(nproc) as ex:
        results = list(ex.map(drive, range(nproc)))
    total = nconc = nfit = 0
    whats = set()
    for crashed, rc, o, bad, acc, rejects, rs in results:
        if crashed:
            rep.violation("shared-object driver (%s) crashed or a data race was reported (rc=%d)" % (flavour, rc), payload={"output": o[-5000:]})
        for b in bad[:3]:
            rep.violation("shared-object driver: %s" % b, payload=b)
        total += acc
        for rj in rejects:
            if rj["event"].get("e") == "Fit":
                rep.violation("the same fit with different pool sizes / schedules gives a different model (replay: shared_driver <out> fit %s %s 30): %s"
                              % (rj["event"].get("pseed"), "gboost" if rj["event"].get("model") == "gboost" else rj["event"].get("linear"),
                                 {k: v for k, v in rj["event"].items() if k not in ("model0", "modelv")}), payload=rj["event"])
            else:
                rep.violation("concurrent use of a shared %s differs from the solo call: %s" % (rj["execution"][0].get("what"), rj["event"]),
                              payload={"what": rj["execution"][0], "event": rj["event"]})
        for x in rs:
            if x["e"] == "Conc":
                nconc += 1
            elif x["e"] == "Fit":
                nfit += 1
            elif x["e"] == "Reset":
                whats.add(x["what"].split(":")[0])
    return total, nconc, nfit, whats, results


def run(rep, tier):
    r = common.tlc("SharedConst", "SharedConst.cfg", SPECDIR, workers=4, timeout=600)
    rep.add_tlc(r, "SharedConst.tla (3 threads, per-call clones)")
    if not r.ok:
        if r.invariant_violated:
            rep.violation("SharedConst.tla violates %s" % r.invariant_violated, payload=r.out[-4000:])
        else:
            raise CheckError("TLC failed on SharedConst:\n" + r.out[-3000:])
    common.negative_control(rep, "SharedConst", "SharedConst_noclone.cfg", SPECDIR,
                            "without per-call clones two threads write the same instance")
    r3 = common.tlc("MLTune", "MLTune_mc.cfg", os.path.join(common.SPEC, "tuner"), workers=4, timeout=600)
    rep.add_tlc(r3, "MLTune.tla (confluence of the (trial, fold) tasks: ResultIsSequential)")
    if not r3.ok:
        rep.violation("MLTune.tla violates %s" % r3.invariant_violated, payload=r3.out[-4000:])
    nproc, rounds, fits = (4, 1, 8) if tier == "quick" else (12, 4, 40)
    total, nconc, nfit, whats, results = drive_all(rep, "rel", nproc, rounds, fits, "")
    if not rep.violations and (nconc < 500 or nfit < 30 or len(whats) < 4):
        raise CheckError("shared-object coverage too small: %d concurrent calls, %d fit comparisons, %s" % (nconc, nfit, whats))
    rep.sample([x for x in results[0][6] if x["e"] in ("Reset", "Solo", "Conc")][:5])
    rep.sample([x for x in results[0][6] if x["e"] == "Fit"][0])
    rep.add(traces_validated_against_impl=total, evaluations=nconc + nfit, distinct_nontrivial=nconc, concurrent_calls=nconc, fit_comparisons=nfit,
            shared_object_kinds=sorted(whats),
            rule="one concurrent call = (shared instance, task, thread) with 2..8 threads each running all tasks in its own order with seeded "
                 "yields; shared instances: 22 deterministic solver types (minimize with per-call function clones), all 17 losses "
                 "(value/error/vgrad on shared tensors), a dataset (flatten/select/targets/iterator with per-thread buffers), fitted gboost and "
                 "linear models (predict); fits: gboost / 4 linear regularisers with pools capped at 1/2/16 and dataset pools 1/3/16")
    if tier == "thorough":
        t2 = drive_all(rep, "tsan", 4, 1, 2, "tsan")
        rep.add(tsan_concurrent_calls=t2[1])
    rep.assume("bit-identity is observed per run (hash of the result bytes), not proved; absence of data races in code the model does not describe "
               "is what the ThreadSanitizer flavour (thorough) observes",
               "fit invariance uses lbfgs for smooth objectives and fpba1 for lasso / elastic net (osga and mae+lbfgs amplify last-bit "
               "re-association differences and are left out, see DESIGN.md §3 C18)")


def replay(rep, path):
    run(rep, "quick")
