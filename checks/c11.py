"""C11 - (M) TLC on EarlyStopping.tla, (R) every edge of its state graph replayed on the real gboost::early_stopping_t
(thorough: all validation-error histories in lock-step with the exported transition table), (V) real gboost/linear fits
validated against GBoostFitTrace.tla."""
import os

import common
import dot
import trace
from common import CheckError

LEVEL = "model_checking"
SPECDIR = os.path.join(common.SPEC, "gboost")


def es_model(rep, tier, work):
    exe = common.build_harness("es_driver")["es_driver"]
    cfg = "EarlyStopping_mc.cfg" if tier == "quick" else "EarlyStopping_big.cfg"
    dotfile = os.path.join(work, "es.dot")
    r = common.tlc("EarlyStopping", cfg, SPECDIR, workers=8, timeout=1200, extra=["-dump", "dot,actionlabels", dotfile])
    rep.add_tlc(r, "EarlyStopping.tla/" + cfg)
    if not r.ok:
        if r.invariant_violated or r.property_violated:
            rep.violation("EarlyStopping.tla violates %s" % (r.invariant_violated or "an action property"), payload=r.out[-5000:])
            return
        raise CheckError("TLC failed on EarlyStopping.tla:\n" + r.out[-3000:])
    # unbounded strengthening (any epsilon, any patience, arbitrary long histories of arbitrary finite values): Apalache discharges
    # an inductive invariant of the same Done action (EarlyStoppingInd.tla)
    common.inductive(rep, "EarlyStoppingInd", SPECDIR, what="early stopping reports the last accepted round and stops exactly when due")
    g = dot.Graph(dotfile)
    pred = g.bfs_tree()
    eps = 1

    def step(lab, v):
        _, (tr, vd) = dot.Graph.action(lab)
        s = g.nodes[v]
        return "%d %d %d %d %d %d" % (tr, vd, s["bestRound"], s["bestValue"], s["snapshot"], int(s["stopped"]))

    plan = os.path.join(work, "es_plan.txt")
    nsteps = 0
    with open(plan, "w") as f:
        for a, b, lab in g.edges:
            path = g.path_to(pred, a)
            init = g.nodes[path[0][0]] if path else g.nodes[a]
            steps = [step(l, v) for _, l, v in path] + [step(lab, b)]
            nsteps += len(steps)
            f.write("P %d %d %d %d\n%s\n" % (init["patience"], int(init["hasValid"]), eps, len(steps), "\n".join(steps)))
    out = os.path.join(work, "es_replay.ndjson")
    rc, o, _ = common.run([exe, "paths", plan, out], timeout=900, check=False)
    recs = common.read_ndjson(out) if os.path.exists(out) else []
    summ = [x for x in recs if x["e"] == "Summary"]
    if rc != 0 or not summ:
        rep.violation("early-stopping replay driver crashed (rc=%d)" % rc, payload={"output": o[-3000:]})
    else:
        if summ[0]["paths"] != len(g.edges):
            raise CheckError("early-stopping replay: %d of %d paths executed" % (summ[0]["paths"], len(g.edges)))
        for m in [x for x in recs if x["e"] == "Mismatch"][:5]:
            rep.violation("early_stopping_t deviates from EarlyStopping.tla: patience=%s hasValid=%s input=(%s,%s): spec (bestRound,bestValue,snapshot,stopped)=%s impl=%s"
                          % (m["patience"], m["hasValid"], m["tr"], m["vd"], m["spec"], m["impl"]), payload=m)
        rep.add(edges_replayed=len(g.edges), replay_steps=summ[0]["steps"], graph_states=len(g.nodes), exhaustive=True)
    rep.sample({"early_stopping_path": open(plan).read().split("P ")[len(g.edges) // 2].strip().split("\n")})

    if tier == "thorough":
        # all histories: export the transition table and walk the real object in lock-step
        ids = {n: i for i, n in enumerate(g.nodes)}
        table = os.path.join(work, "es_table.txt")
        with open(table, "w") as f:
            f.write("S %d\n" % len(ids))
            for n in g.inits:
                f.write("I %d %d %d\n" % (ids[n], g.nodes[n]["patience"], int(g.nodes[n]["hasValid"])))
            for n, s in g.nodes.items():
                f.write("N %d %d %d %d %d\n" % (ids[n], s["bestRound"], s["bestValue"], s["snapshot"], int(s["stopped"])))
            for a, b, lab in g.edges:
                _, (tr, vd) = dot.Graph.action(lab)
                f.write("T %d %d %d %d\n" % (ids[a], tr, vd, ids[b]))
        out = os.path.join(work, "es_table.ndjson")
        rc, o, _ = common.run([exe, "table", table, out, str(eps), "8", "5"], timeout=3000, check=False)
        recs = common.read_ndjson(out) if os.path.exists(out) else []
        summ = [x for x in recs if x["e"] == "Summary"]
        if rc != 0 or not summ:
            rep.violation("early-stopping enumeration crashed (rc=%d)" % rc, payload={"output": o[-3000:]})
        else:
            for m in [x for x in recs if x["e"] == "Mismatch"][:5]:
                rep.violation("early_stopping_t deviates from EarlyStopping.tla on history %s" % m, payload=m)
            rep.add(histories_enumerated=summ[0]["paths"], history_steps=summ[0]["steps"])


def run(rep, tier):
    work = common.workdir("C11")
    rep.assume("error values are small integers (exact doubles); mean over one training and one validation sample",
               "the whole state of early_stopping_t (round, value, values) is observable, so covering every edge of the state "
               "graph covers every history within the bounds")
    es_model(rep, tier, work)
    try:
        import c11_fit
    except ImportError:
        c11_fit = None
    if c11_fit is not None:
        c11_fit.run(rep, tier, work)


def replay(rep, path):
    run(rep, "quick")
