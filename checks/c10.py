"""C10 - weak learners: (E) TLC finds by brute force the minimum RSS over the hypothesis class (all features, mid-point
thresholds, hinge directions, label sets, least squares) for every recorded fit on small integer datasets (WeakLearner.tla);
(V) the algebraic consistency clauses for all eight learners and four criteria (WeakLearnerTrace.tla)."""
import os
from concurrent.futures import ThreadPoolExecutor

import common
import sets
import trace
from common import CheckError

LEVEL = "exploration"
SPECDIR = os.path.join(common.SPEC, "wlearner")


def run(rep, tier):
    work = common.workdir("C10")
    # the sample-selection bookkeeping underneath (cluster_t / testing marks): SampleSets.tla, every edge replayed on the real objects
    sets.run(rep, "C10", tier)
    exe = common.build_harness("wlearner_driver")["wlearner_driver"]
    nproc, ne, na = (8, 300, 250) if tier == "quick" else (16, 3000, 2500)

    def drive(i):
        out = os.path.join(work, "wlearner_%d.ndjson" % i)
        rc, o, _ = common.run([exe, out, str(common.seed() * 1000 + i + 1), str(ne), str(na)], timeout=3000, check=False)
        rs = common.read_ndjson(out) if os.path.exists(out) else []
        crashed = rc != 0 or not rs or rs[-1].get("case") != -1
        bad = [x for x in rs if x["e"] in ("Abort",)]
        rs = [x for x in rs if x["e"] != "Abort"]
        acc, rejects, states = trace.validate_independent("WeakLearnerTrace", "WeakLearnerTrace.cfg", SPECDIR, rs, out + ".tlc", tag="c10_%d" % i)
        return crashed, o, bad, acc, rejects, rs, states

    with ThreadPoolExecutor(nproc) as ex:
        results = list(ex.map(drive, range(nproc)))
    total = nfit = nalg = states = nmfit = nlarge = 0
    kinds = set()
    for crashed, o, bad, acc, rejects, rs, st in results:
        if crashed:
            rep.violation("weak-learner driver crashed", payload={"output": o[-3000:]})
        for b in bad[:3]:
            rep.violation("weak-learner driver: %s" % b, payload=b)
        total += acc
        states += st
        for ev in rejects:
            what = "fit is not the class minimum / predictions do not reproduce it" if ev["e"] == "WFit" else "algebraic clause violated"
            rep.violation("%s: %s" % (what, str(ev)[:700]), payload=ev)
        for x in rs:
            if x["e"] == "WFit" and x["fitted"]:
                nfit += 1
                nmfit += 1 if "mclass" in x["kinds"] else 0
            elif x["e"] == "WAlg":
                nalg += 1
                kinds.add(x["kind"])
                nlarge += 1 if x["n"] >= 100 else 0
    if not rep.violations and (nfit < 1000 or nalg < 800 or len(kinds) < 9 or nmfit < 200 or nlarge < 20):
        raise CheckError("weak-learner coverage too small: %d fits (%d with multi-label features), %d algebra cases (%d trees on >= 100 "
                         "samples), kinds %s" % (nfit, nmfit, nalg, nlarge, sorted(kinds)))
    rep.sample([x for x in results[0][5] if x["e"] == "WFit" and x["fitted"]][0])
    rep.sample([x for x in results[0][5] if x["e"] == "WAlg"][0])
    rep.add(traces_validated_against_impl=total, evaluations=total, distinct_nontrivial=nfit, brute_force_fits=nfit, brute_force_fits_with_multilabel=nmfit,
            algebra_cases=nalg, trees_on_100_or_more_samples=nlarge,
            states=states, transitions=states,
            rule="exact fits: 2..12 samples, 1..5 integer scalar / single-label (<=4 classes) / multi-label (<=3 labels, a value = its set "
                 "of labels) features with missing values and ties, 1..2 outputs, integer gradients, sample lists with repetition, RSS "
                 "criterion, stump / hinge / affine / dense-table / dstep-table; algebra: 2..60 samples (trees also 100..200 with min_split "
                 "1..10), up to 8 scalar / single-label / multi-label features, 1..3 outputs, 4 criteria, all 8 learners, predict-into-outputs "
                 "and split() also on strict sub-lists / unsorted / repeated lists; non-trivial = fits that produced a learner")
    rep.assume("TLC's rational minimum is compared with the fitted score at 1e-3 (32-bit integers); that the predictions reproduce the score, and "
               "the algebraic clauses, are computed by the driver (1e-9 / 1e-12 relative) and enter TLC as booleans",
               "AIC/AICc/BIC (logarithms) are used only in the consistency clauses; optimality beyond the integer lattice is not covered")


def replay(rep, path):
    run(rep, "quick")
