"""C11, fit part: GBoostFit.tla model-checked; real gboost/linear fits recorded by harness/fit_driver.cpp and validated
against GBoostFitTrace.tla."""
import os
from concurrent.futures import ThreadPoolExecutor

import common
import trace
from common import CheckError

SPECDIR = os.path.join(common.SPEC, "gboost")


def run(rep, tier, work):
    r = common.tlc("GBoostFit", "GBoostFit_mc.cfg", SPECDIR, workers=4, timeout=900)
    rep.add_tlc(r, "GBoostFit.tla/GBoostFit_mc.cfg (boosting loop x early stopping x truncation)")
    if not r.ok:
        if r.invariant_violated:
            rep.violation("GBoostFit.tla violates %s" % r.invariant_violated, payload=r.out[-5000:])
            return
        raise CheckError("TLC failed on GBoostFit.tla:\n" + r.out[-3000:])
    exe = common.build_harness("fit_driver")["fit_driver"]
    ng, nl, nproc = (48, 24, 8) if tier == "quick" else (640, 320, 16)

    def drive(i):
        out = os.path.join(work, "fit_%d.ndjson" % i)
        rc, o, _ = common.run([exe, out, str(common.seed() * 1000 + i + 1), str(ng // nproc), str(nl // nproc)], timeout=3000, check=False)
        return out, rc, o

    with ThreadPoolExecutor(8) as ex:
        outs = list(ex.map(drive, range(nproc)))
    recs = []
    for out, rc, o in outs:
        rs = common.read_ndjson(out) if os.path.exists(out) else []
        aborts = [x for x in rs if x["e"] == "Abort"]
        if rc != 0 or aborts:
            rep.violation("fit driver failed (rc=%d): %s" % (rc, aborts[:1] or o[-1500:]), payload={"trace": out, "output": o[-3000:]})
        recs += [x for x in rs if x["e"] != "Abort"]
    accepted, rejects, _ = trace.validate("GBoostFitTrace", "GBoostFitTrace.cfg", SPECDIR, recs, os.path.join(work, "fit_all.ndjson"), tag="c11fit")
    for rj in rejects:
        rep.violation("fit trace rejected (%s) for case [%s] at %s" % (rj["name"], rj["execution"][0].get("desc"), rj["event"]), payload=rj)
    nslots = len([x for x in recs if x["e"] == "Slot"])
    deep = len([x for x in recs if x["e"] == "Slot" and x["rows"] >= 3])
    if not rep.violations and (nslots < 50):
        raise CheckError("fit driver produced only %d slots" % nslots)
    rep.add(traces_validated_against_impl=accepted, fit_slots=nslots, fit_slots_with_3plus_rounds=deep)
    rep.sample({"fit": [x for x in recs if x["e"] in ("Reset", "Fit", "Slot", "Final")][:4]})
    rep.assume("equality of stored and recomputed statistics / predictions is computed by the driver through the public API "
               "(1e-11 relative) and enters TLC as booleans; TLC checks the (trial, fold) bookkeeping around them")
