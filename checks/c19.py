"""C19 - parameters and configurable objects: (M) TLC on Parameter.tla / Configurable.tla, (R) every edge of TLC's state
graph of Parameter.tla (and random walks over it) replayed on real parameter_t objects, (V) factory sweep validated by
TLC against ConfigurableTrace.tla."""
import os
import random

import common
import dot
import trace
from common import CheckError

LEVEL = "model_checking"
SPECDIR = os.path.join(common.SPEC, "param")


def enc(v):
    if isinstance(v, (tuple, list)):
        return "%d%s" % (len(v), "".join(":" + enc1(x) for x in v))
    return "1:" + enc1(v)


def enc1(x):
    if x is True:
        return "1"
    if x is False:
        return "0"
    return str(x)


def plan_line(mode, pre, label, post):
    name, args = dot.Graph.action(label)
    c = pre["cfg"]
    return "%s %s %d %d %d %s %s %s %s %s %s" % (mode, c["kind"], c["minLE"], c["maxLE"], c["valLE"], enc(pre["val"]), name,
                                                  enc(tuple(args)), enc(post["val"]), post["last"], enc(post["obs"]))


def run(rep, tier):
    work = common.workdir("C19")
    exe = common.build_harness("param_driver")["param_driver"]
    rep.assume("real kinds are compared through an order embedding of the grid (neighbours of the bounds = nextafter(bound)); "
               "integer kinds through the half-integer grid exactly",
               "NaN/inf assigned to integer kinds: the specification expects rejection (what the x86 conversion yields); not run under UBSan",
               "factory sweep: real-valued domains enter TLC as order ranks (domain membership only needs comparisons)")

    # (M) + graph dump
    dotfile = os.path.join(work, "parameter.dot")
    r = common.tlc("Parameter", "Parameter_mc.cfg", SPECDIR, workers=8, timeout=900, extra=["-dump", "dot,actionlabels", dotfile])
    rep.add_tlc(r, "Parameter.tla/Parameter_mc.cfg (all kinds x comparator combinations, full state graph)")
    if not r.ok:
        if r.invariant_violated or r.property_violated:
            rep.violation("Parameter.tla violates %s" % (r.invariant_violated or "an action property"), payload=r.out[-5000:])
            return
        raise CheckError("TLC failed on Parameter.tla:\n" + r.out[-3000:])
    r2 = common.tlc("Configurable", "Configurable_mc.cfg", SPECDIR, workers=8, timeout=900)
    rep.add_tlc(r2, "Configurable.tla/Configurable_mc.cfg (2 objects x 2 names: register/lookup/clone/assign)")
    if not r2.ok:
        if r2.invariant_violated or r2.property_violated:
            rep.violation("Configurable.tla violates %s" % (r2.invariant_violated or "an action property"), payload=r2.out[-5000:])
            return
        raise CheckError("TLC failed on Configurable.tla:\n" + r2.out[-3000:])

    # (R) every edge + random walks
    g = dot.Graph(dotfile)
    lines = []
    for a, b, lab in g.edges:
        lines.append(plan_line("E", g.nodes[a], lab, g.nodes[b]))
    nedges = len(lines)
    rng = random.Random(common.seed())
    nwalks = 3000 if tier == "quick" else 60000
    for _ in range(nwalks):
        u = rng.choice(g.inits)
        for k in range(6):
            v, lab = rng.choice(g.adj[u])
            lines.append(plan_line("E" if k == 0 else "C", g.nodes[u], lab, g.nodes[v]))
            u = v
    plan = os.path.join(work, "plan.txt")
    with open(plan, "w") as f:
        f.write("\n".join(lines) + "\n")
    out = os.path.join(work, "replay.ndjson")
    rc, o, _ = common.run([exe, "replay", plan, out], timeout=900, check=False)
    recs = common.read_ndjson(out) if os.path.exists(out) else []
    summary = [x for x in recs if x["e"] == "Summary"]
    if rc != 0 or not summary:
        rep.violation("parameter replay driver crashed (rc=%d)" % rc, payload={"output": o[-3000:], "tail": recs[-5:]})
    else:
        if summary[0]["steps"] != len(lines):
            raise CheckError("replay driver executed %d of %d steps" % (summary[0]["steps"], len(lines)))
        mism = [x for x in recs if x["e"] == "Mismatch"]
        seen = set()
        for m in mism:
            key = " ".join(m["step"].split()[1:7:5]) if False else (m["step"].split()[1], m["step"].split()[6], m["what"])
            if key in seen:
                continue
            seen.add(key)
            if len(seen) <= 10:
                rep.violation("parameter_t deviates from Parameter.tla at step [%s]: impl post=%s last=%s obs=%s (%s)" % (
                    m["step"], m.get("impl_post"), m.get("impl_last"), m.get("impl_obs"), m["what"]), payload=m)
    rep.add(edges_replayed=nedges, walk_steps=len(lines) - nedges, graph_states=len(g.nodes), exhaustive=True)
    rep.sample({"replayed_edge": lines[0]})
    rep.sample({"replayed_edge": lines[nedges // 2]})
    rep.sample({"walk": lines[nedges:nedges + 6]})

    # (V) factory sweep
    sweep = os.path.join(work, "sweep.ndjson")
    rc, o, _ = common.run([exe, "sweep", sweep], timeout=600, check=False)
    recs = common.read_ndjson(sweep) if os.path.exists(sweep) else []
    if rc != 0 or any(x["e"] == "Abort" for x in recs):
        rep.violation("factory sweep crashed (rc=%d)" % rc, payload={"output": o[-3000:], "tail": recs[-5:]})
        recs = [x for x in recs if x["e"] != "Abort"]
    accepted, rejects, tl = trace.validate("ConfigurableTrace", "ConfigurableTrace.cfg", SPECDIR, recs, sweep + ".tlc", tag="c19sweep")
    for rj in rejects:
        ex0 = rj["execution"][0]
        rep.violation("factory sweep rejected (%s: %s) for %s/%s at %s" % (rj["kind"], rj["name"], ex0.get("factory"), ex0.get("id"), rj["event"]),
                      payload=rj)
    nobj = len([x for x in recs if x["e"] == "Get"])
    nparam = len([x for x in recs if x["e"] == "Param"])
    if not rep.violations and (nobj < 100 or nparam < 250):
        raise CheckError("factory sweep too small: %d objects, %d parameters" % (nobj, nparam))
    kinds = {}
    for x in recs:
        kinds[x["e"]] = kinds.get(x["e"], 0) + 1
    probes = len([x for x in recs if x["e"] == "Clone" and x.get("probe", 0) > 0])
    if not rep.violations and (kinds.get("Construct", 0) < 1000 or kinds.get("AssignStr", 0) < 100 or kinds.get("Config", 0) < 5 or probes < 100):
        raise CheckError("factory sweep: driver-owned cases missing (%s, %d behaviour probes)" % (kinds, probes))
    rep.add(traces_validated_against_impl=accepted, factory_objects=nobj, factory_parameters=nparam, sweep_records=kinds, behaviour_probes=probes)
    rep.sample({"sweep": [x for x in recs[:9]]})


def replay(rep, path):
    run(rep, "quick")
