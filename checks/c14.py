"""C14 (scoped lattice check) - feature scaling: TLC re-computes the per-column statistics and the scaled values of the four
modes on exact-lattice data, and checks inversion, degenerate columns, categorical columns, missing values and the affine
up-scaling identity (Scaling.tla / ScalingTrace.tla). Rounding claims on non-lattice data are outside TLC (not covered)."""
import os
from concurrent.futures import ThreadPoolExecutor

import common
import trace
from common import CheckError

LEVEL = "other"
SPECDIR = os.path.join(common.SPEC, "scaling")


def run(rep, tier):
    work = common.workdir("C14")
    exe = common.build_harness("scaling_driver")["scaling_driver"]
    nproc, cases = (6, 150) if tier == "quick" else (16, 1500)

    def drive(i):
        out = os.path.join(work, "scaling_%d.ndjson" % i)
        rc, o, _ = common.run([exe, out, str(common.seed() * 1000 + i + 1), str(cases)], timeout=3000, check=False)
        rs = common.read_ndjson(out) if os.path.exists(out) else []
        crashed = rc != 0 or not rs or rs[-1].get("case") != -1
        bad = [x for x in rs if x["e"] in ("Abort", "Inexact")]
        rs = [x for x in rs if x["e"] not in ("Abort", "Inexact")]
        acc, rejects, states = trace.validate_independent("ScalingTrace", "ScalingTrace.cfg", SPECDIR, rs, out + ".tlc", tag="c14_%d" % i)
        return crashed, o, bad, acc, rejects, rs, states

    with ThreadPoolExecutor(nproc) as ex:
        results = list(ex.map(drive, range(nproc)))
    total = nscale = naff = states = nfloat = 0
    for crashed, o, bad, acc, rejects, rs, st in results:
        if crashed:
            rep.violation("scaling driver crashed", payload={"output": o[-3000:]})
        for b in bad[:3]:
            rep.violation("scaling driver: %s (a statistic / scaled value on the exact lattice is not exact)" % b, payload=b)
        total += acc
        states += st
        for ev in rejects:
            small = {k: (v if len(str(v)) < 200 else str(v)[:200] + "...") for k, v in ev.items()}
            rep.violation("scaling record disagrees with Scaling.tla: %s" % small, payload=ev)
        for x in rs:
            nscale += 1 if x["e"] == "Scale" else 0
            nfloat = nfloat + (1 if x["e"] == "Float" else 0)
            naff += 1 if x["e"] == "Affine" and x["predRaw"] else 0
    if not rep.violations and (nscale < 2000 or naff < 300):
        raise CheckError("scaling coverage too small: %d scale records, %d affine records" % (nscale, naff))
    s0 = [x for x in results[0][5] if x["e"] == "Scale" and x["mode"] == "standard"][0]
    rep.sample({k: (v if len(str(v)) < 400 else str(v)[:400] + "...") for k, v in s0.items()})
    rep.add(explanation="Scoped check on an exact lattice: columns {m-s, m, m+s} with integer mean, power-of-two deviation, constant / single-sample / "
                        "all-missing columns, arbitrary missing samples, categorical columns; TLC re-computes N, min, max, mean N, stdev, the scaled "
                        "value of every entry for the four modes (as rational identities), identity scaling of degenerate columns, missing -> 0, "
                        "categorical columns untouched; inversion, advertised range/mean/deviation and the affine up-scaling identity are checked "
                        "exactly on the lattice. Real-valued matrices (1..300 rows x 1..20 columns, magnitudes 1e-6..1e6, near-constant columns down to "
                        "a spread of 1e-8 of the mean, arbitrary missing patterns, multi-label and structured inputs, continuous and categorical targets, sample lists "
                        "that are subsets / permutations / with repetitions, multi-output models): statistics of inputs, targets and single features "
                        "(make_flatten_stats / make_targets_stats / make_feature_stats, the iterators' own) recomputed in long double, inversion, "
                        "advertised range / mean / deviation, categorical columns, missing -> 0 and the affine identity are decided by the driver with "
                        "rounding tolerances and asserted by the trace specification (rounding is outside what TLC can decide).",
            evaluations=total, distinct_nontrivial=nscale, scale_records=nscale, affine_records=naff, float_records=nfloat, states=states, transitions=states,
            traces_validated_against_impl=total)
    rep.assume("partial claim: only the exact-lattice reading of the property is decided")


def replay(rep, path):
    run(rep, "quick")
