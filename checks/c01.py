"""C01 - L-BFGS/BFGS on well-conditioned quadratics and truthful `converged` for all line-search solvers: (M) TLC on
SolverLoop.tla ("ls" family), (V) line-search solvers x lsearch0 x lsearchk x tolerances x epsilon on smooth functions, and
lbfgs/bfgs on random quadratics (kappa <= 1e3, n <= 16) at epsilon 1e-8, validated by TLC against MinimizerTrace.tla."""
import common
import solver_common
from common import CheckError

LEVEL = "exploration"


def run(rep, tier):
    solver_common.model_check(rep, ["SolverLoop_ls.cfg"])
    nproc, ntruth, nquad = (8, 200, 300) if tier == "quick" else (16, 2000, 3000)
    total, stats, solvers, nevals = solver_common.drive_and_validate(rep, "C01", nproc, 0, ntruth, nquad)
    if not rep.violations and (total < nproc * (ntruth + nquad) * 0.9 or len(solvers) < 17 or stats.get("converged", 0) < 50):
        raise CheckError("C01 coverage too small: %d runs, %d solvers, %s" % (total, len(solvers), stats))
    rep.add(traces_validated_against_impl=total, evaluations=total, distinct_nontrivial=stats.get("converged", 0), statuses=stats,
            line_search_solvers=len(solvers), quadratic_runs=nproc * nquad, aggregated_evaluations=nevals,
            rule="truthfulness: one run = (line-search solver, lsearch0, lsearchk, (c1, c2), epsilon 1e-12..1e-2, budget, smooth registered "
                 "function 1..32 dims, x0); convergence: lbfgs/bfgs on 0.5x'Ax+a'x, A = s Q diag Q', kappa <= 1e3, s in [1e-3,1e3], n <= 16, "
                 "x0 in [-10,10]^n; non-trivial = runs that returned `converged` (the clause's antecedent)")
    rep.assume("the gradient test max|g|/max(1,|f|) < epsilon is recomputed by the driver from the counting wrapper's own (f, g) of the returned "
               "evaluation; the accuracy bound uses the closed-form minimiser; that L-BFGS does converge that fast is observed per run, not proved")


def replay(rep, path):
    run(rep, "quick")
