"""C02 - every solver honours the minimiser contract: (M) TLC on SolverLoop.tla (line-search and best-state families, all
evaluation-outcome sequences), (V) runs of all registered solvers on registered/random objectives with random budgets and
parameters, recorded through a counting wrapper and validated by TLC against MinimizerTrace.tla."""
import os
from concurrent.futures import ThreadPoolExecutor

import common
import dot
import solver_common
import trace
from common import CheckError

LEVEL = "exploration"


def state_tracker(rep, tier):
    """the best-state tracker behind the non-monotonic solvers (solver_state_t::update_if_better / update / value_test):
    (M) SolverState.tla under TLC, (R) every edge of its state graph applied to a real solver_state_t, (V) long random call
    histories of the real class validated against the same actions (SolverStateTrace.tla)"""
    work = common.workdir("C02")
    specdir = os.path.join(common.SPEC, "solver")
    exe = common.build_harness("state_driver")["state_driver"]
    r = common.tlc("SolverState", "SolverState_mc.cfg", specdir, workers=12, timeout=1800)
    rep.add_tlc(r, "SolverState.tla/SolverState_mc.cfg")
    if not r.ok:
        if r.invariant_violated or r.property_violated:
            rep.violation("SolverState.tla violates %s" % (r.invariant_violated or "an action property"), payload=r.out[-5000:])
            return
        raise CheckError("TLC failed on SolverState.tla:\n" + r.out[-3000:])
    # unbounded strengthening (arbitrary integer values and points, arbitrarily long histories, any patience): Apalache discharges an
    # inductive invariant of a history-free formulation of the same actions (SolverStateInd.tla)
    common.inductive(rep, "SolverStateInd", specdir, what="the stored value is the smallest finite value handed in; value_test(k) = 0 exactly "
                                                           "when the last k calls brought no strict improvement")
    cfg = "SolverStateReplay.cfg" if tier == "quick" else "SolverStateReplay_big.cfg"
    dotfile = os.path.join(work, "state.dot")
    r = common.tlc("SolverStateReplay", cfg, specdir, workers=8, timeout=1800, extra=["-dump", "dot,actionlabels", dotfile])
    rep.add_tlc(r, "SolverStateReplay.tla/" + cfg)
    if not r.ok:
        raise CheckError("TLC failed on SolverStateReplay.tla:\n" + r.out[-3000:])
    g = dot.Graph(dotfile)
    os.remove(dotfile)
    ids = {n: i for i, n in enumerate(g.nodes)}
    npat = len(next(iter(g.nodes.values()))["vt"])
    table = os.path.join(work, "state_table.txt")
    with open(table, "w") as f:
        f.write("K %d\n" % npat)
        for n, s in g.nodes.items():
            f.write("N %d %d %d %d %d %d %s\n" % (ids[n], s["x"], s["fx"], s["g"][0], s["g"][1], int(s["better"]), " ".join(str(v) for v in s["vt"])))
        for n in g.inits:
            f.write("I %d\n" % ids[n])
        for a, b, lab in g.edges:
            name, args = dot.Graph.action(lab)
            if name == "ROffer":
                p, v, wg = args
                f.write("T %d O %d %d %d %d %d\n" % (ids[a], p, 0 if v == 99 else v, int(v == 99), int(wg), ids[b]))
            elif name == "RSet":
                p, v = args
                f.write("T %d S %d %d 0 1 %d\n" % (ids[a], p, v, ids[b]))
            else:
                raise CheckError("unexpected action label %r in the state graph of SolverStateReplay.tla" % lab)
    out = os.path.join(work, "state_replay.ndjson")
    rc, o, _ = common.run([exe, "table", table, out], timeout=1800, check=False)
    recs = common.read_ndjson(out) if os.path.exists(out) else []
    summ = [x for x in recs if x["e"] == "Summary"]
    if rc != 0 or not summ:
        rep.violation("best-state replay driver crashed (rc=%d)" % rc, payload={"output": o[-3000:]})
    else:
        # a step that deviates from the transcription is judged by what C02 itself demands (SolverStateWeak.tla): only then a violation
        devs = [x for x in recs if "dev" in x]
        if devs:
            judge(rep, specdir, devs, os.path.join(work, "state_dev.ndjson"), [x for x in recs if x["e"] == "Mismatch"], "c02w")
        if not rep.violations and (summ[0]["edges"] != len(g.edges) or summ[0]["steps"] != 2 * len(g.edges) or summ[0]["states"] != 2 * len(g.nodes)):
            raise CheckError("best-state replay: %s of %d edges / %d states" % (summ[0], len(g.edges), len(g.nodes)))
        rep.add(state_tracker_edges_replayed=len(g.edges), state_tracker_states=len(g.nodes), state_tracker_steps=summ[0]["steps"])
    # long random histories of the real class against the same actions
    nproc, nexec = (4, 150) if tier == "quick" else (12, 1500)

    def drive(i):
        tr = os.path.join(work, "state_random_%d.ndjson" % i)
        rc, o, _ = common.run([exe, "random", tr, str(common.seed() * 1000 + 40 + i), str(nexec)], timeout=1800, check=False)
        rs = common.read_ndjson(tr) if os.path.exists(tr) else []
        crashed = rc != 0 or not rs or rs[-1].get("case") != -1
        acc, rejects, results = trace.validate("SolverStateTrace", "SolverStateTrace.cfg", specdir, rs, tr + ".tlc", tag="c02s_%d" % i, chunk=200)
        return crashed, o, acc, rejects, len(rs), rs[:5]

    with ThreadPoolExecutor(nproc) as ex:
        results = list(ex.map(drive, range(nproc)))
    nacc = ncalls = 0
    for crashed, o, acc, rejects, n, head in results:
        rep.sample({"best_state_tracker_history": head}, limit=8)
        if crashed:
            rep.violation("best-state driver crashed", payload={"output": o[-3000:]})
        for k, rj in enumerate(rejects):
            judge(rep, specdir, rj["execution"], os.path.join(work, "state_dev_r%d.ndjson" % k), [rj.get("event")], "c02wr%d" % k)
        nacc += acc
        ncalls += n
    if not rep.violations and "state_tracker_deviations_from_transcription" not in rep.coverage and nacc < nproc * nexec:
        raise CheckError("best-state histories: %d of %d accepted without a rejection being reported" % (nacc, nproc * nexec))
    rep.add(state_tracker_histories_validated=nacc, state_tracker_calls_validated=ncalls)


def judge(rep, specdir, records, workfile, details, tag):
    """records (Reset-delimited histories of real calls) deviate from SolverState.tla, the transcription of the code. C02 demands less than
    the transcription (an honest, finite, never-worse triple): SolverStateWeak.tla decides whether a deviation violates the property. A
    deviation it accepts is recorded in the evidence only."""
    acc, rejects, _ = trace.validate("SolverStateWeak", "SolverStateWeak.cfg", specdir, records, workfile, tag=tag, chunk=100)
    for rj in rejects:
        rep.violation("solver_state_t breaks the contract of the best-state tracker (%s): %s after %s"
                      % (rj.get("name"), str(rj.get("event"))[:400], str(rj["execution"][:1])[:300]), payload=rj)
    rep.add(state_tracker_deviations_from_transcription=len(trace.split_executions(records)), state_tracker_deviations_violating_c02=len(rejects))
    if not rejects:
        rep.coverage.setdefault("notes", []).append(
            "solver_state_t deviates from SolverState.tla (the transcription of update_if_better / value_test) without breaking what C02 demands "
            "(SolverStateWeak.tla accepts): e.g. %s" % str(details[:1])[:500])


def run(rep, tier):
    solver_common.model_check(rep, ["SolverLoop_ls.cfg", "SolverLoop_best.cfg"])
    state_tracker(rep, tier)
    nproc, nsweep = (8, 300) if tier == "quick" else (16, 3000)
    total, stats, solvers, nevals = solver_common.drive_and_validate(rep, "C02", nproc, nsweep, 0, 0)
    if not rep.violations and (total < nproc * nsweep * 0.9 or len(solvers) < 35):
        raise CheckError("solver sweep coverage too small: %d runs, %d solvers" % (total, len(solvers)))
    nconstrained = constrained_solvers(rep, tier)
    rep.add(constrained_solver_runs=nconstrained)
    rep.add(traces_validated_against_impl=total, evaluations=total, distinct_nontrivial=total, statuses=stats, solvers=len(solvers),
            aggregated_evaluations=nevals,
            rule="one run = (solver, objective, x0 radius 1e-3..10, epsilon 1e-10..1e-2, max_evals in {10..5000}, a third of the runs with "
                 "solver-specific parameters drawn from their domains); solvers cycle over all 35 registered ids, objectives over the "
                 "registered functions (1..32 dims) and random quadratic / max-of-linear functions; every run is distinct and non-trivial "
                 "(>= 1 evaluation, contract evaluated at every logged step)")
    rep.assume("bit-equality of the returned (x, f, g) with a recorded evaluation, finiteness and the CG_DESCENT allowance are computed by the "
               "driver from the counting wrapper's own records; TLC checks provenance, counters, status protocol, ordering and budget arithmetic",
               "the budget clause is evaluated for runs whose solver parameters are at their defaults",
               "gradient-sampling solvers are made reproducible through the NANO_VERIF default seed hook",
               "the three constrained solvers (linear / quadratic penalty, augmented Lagrangian) are not registered in solver_t::all(), so the sweep "
               "never runs them: they run through C05's driver, on functions with constraints (hand-made sets, linear / quadratic programs converted "
               "by nano::make_function, planted empty feasible sets) and on functions with NO constraint at all, with their outer-loop parameters "
               "drawn in their domains in half of the runs (Solve records validated against PenaltyTrace.tla: return contract, counters, budget of "
               "max_outer_iters inner solves each within max_evals + 1100 + 8 n)",
               "the counting wrapper is not always fresh: in a third of the runs it has been evaluated a few times before minimize() (its own log is "
               "then read from the call of minimize() on), so counts reported by the state that include earlier evaluations are over-reports")


def constrained_solvers(rep, tier):
    """the three constrained solvers on functions that HAVE constraints (random linear / quadratic programs with random constraint
    kinds): the return contract of C02 (dimension, reported value = objective re-evaluated at the returned point, stored constraint
    values, finiteness, counters, budget per inner solve) decided by TLC from the Solve records of C05's driver (PenaltyTrace.tla)"""
    work = common.workdir("C02")
    exe = common.build_harness("penalty_driver")["penalty_driver"]
    nproc, ns = (8, 60) if tier == "quick" else (16, 600)

    def drive(i):
        out = os.path.join(work, "constrained_%d.ndjson" % i)
        rc, o, _ = common.run([exe, out, str(common.seed() * 1000 + 700 + i), "0", str(ns)], timeout=3000, check=False)
        rs = common.read_ndjson(out) if os.path.exists(out) else []
        crashed = rc != 0 or not rs or rs[-1].get("case") != -1
        bad = [x for x in rs if x["e"] in ("Abort", "Inexact")]
        rs = [x for x in rs if x["e"] == "Solve"]
        acc, rejects, _ = trace.validate_independent("PenaltyTrace", "PenaltyTrace.cfg", os.path.join(common.SPEC, "penalty"), rs, out + ".tlc",
                                                     tag="c02c_%d" % i)
        return crashed, o, bad, acc, rejects, sum(1 for x in rs if x.get("ncons") == 0 and x["case"] >= 0)

    with ThreadPoolExecutor(nproc) as ex:
        results = list(ex.map(drive, range(nproc)))
    total = nfree = 0
    for crashed, o, bad, acc, rejects, n0 in results:
        nfree += n0
        if crashed:
            rep.violation("constrained-solver driver crashed", payload={"output": o[-3000:]})
        for b in bad[:3]:
            rep.violation("constrained solver threw: %s" % b, payload=b)
        for ev in rejects:
            rep.violation("constrained solver violates the minimiser contract: %s" % str(ev)[:600], payload=ev)
        total += acc
    if not rep.violations and nfree < 20:
        raise CheckError("constrained solvers: only %d runs on functions without constraints" % nfree)
    rep.add(constrained_solver_runs_without_constraints=nfree)
    return total


def replay(rep, path):
    run(rep, "quick")
