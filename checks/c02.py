"""C02 - every solver honours the minimiser contract: (M) TLC on SolverLoop.tla (line-search and best-state families, all
evaluation-outcome sequences), (V) runs of all registered solvers on registered/random objectives with random budgets and
parameters, recorded through a counting wrapper and validated by TLC against MinimizerTrace.tla."""
import common
import solver_common
from common import CheckError

LEVEL = "exploration"


def run(rep, tier):
    solver_common.model_check(rep, ["SolverLoop_ls.cfg", "SolverLoop_best.cfg"])
    nproc, nsweep = (8, 300) if tier == "quick" else (16, 3000)
    total, stats, solvers, nevals = solver_common.drive_and_validate(rep, "C02", nproc, nsweep, 0, 0)
    if not rep.violations and (total < nproc * nsweep * 0.9 or len(solvers) < 35):
        raise CheckError("solver sweep coverage too small: %d runs, %d solvers" % (total, len(solvers)))
    rep.add(traces_validated_against_impl=total, evaluations=total, distinct_nontrivial=total, statuses=stats, solvers=len(solvers),
            aggregated_evaluations=nevals,
            rule="one run = (solver, objective, x0 radius 1e-3..10, epsilon 1e-10..1e-2, max_evals in {10..5000}, a third of the runs with "
                 "solver-specific parameters drawn from their domains); solvers cycle over all 35 registered ids, objectives over the "
                 "registered functions (1..32 dims) and random quadratic / max-of-linear functions; every run is distinct and non-trivial "
                 "(>= 1 evaluation, contract evaluated at every logged step)")
    rep.assume("bit-equality of the returned (x, f, g) with a recorded evaluation, finiteness and the CG_DESCENT allowance are computed by the "
               "driver from the counting wrapper's own records; TLC checks provenance, counters, status protocol, ordering and budget arithmetic",
               "the budget clause is evaluated for runs whose solver parameters are at their defaults",
               "gradient-sampling solvers are made reproducible through the NANO_VERIF default seed hook",
               "the constrained solvers (penalty, augmented Lagrangian) are exercised by C05's driver: return contract, counters and the budget clause (max_outer_iters inner solves, each within max_evals + 1100 + 8 n)")


def replay(rep, path):
    run(rep, "quick")
