"""C02 - every solver honours the minimiser contract: (M) TLC on SolverLoop.tla (line-search and best-state families, all
evaluation-outcome sequences), (V) runs of all registered solvers on registered/random objectives with random budgets and
parameters, recorded through a counting wrapper and validated by TLC against MinimizerTrace.tla."""
import os
from concurrent.futures import ThreadPoolExecutor

import common
import solver_common
import trace
from common import CheckError

LEVEL = "exploration"


def run(rep, tier):
    solver_common.model_check(rep, ["SolverLoop_ls.cfg", "SolverLoop_best.cfg"])
    nproc, nsweep = (8, 300) if tier == "quick" else (16, 3000)
    total, stats, solvers, nevals = solver_common.drive_and_validate(rep, "C02", nproc, nsweep, 0, 0)
    if not rep.violations and (total < nproc * nsweep * 0.9 or len(solvers) < 35):
        raise CheckError("solver sweep coverage too small: %d runs, %d solvers" % (total, len(solvers)))
    nconstrained = constrained_solvers(rep, tier)
    rep.add(constrained_solver_runs=nconstrained)
    rep.add(traces_validated_against_impl=total, evaluations=total, distinct_nontrivial=total, statuses=stats, solvers=len(solvers),
            aggregated_evaluations=nevals,
            rule="one run = (solver, objective, x0 radius 1e-3..10, epsilon 1e-10..1e-2, max_evals in {10..5000}, a third of the runs with "
                 "solver-specific parameters drawn from their domains); solvers cycle over all 35 registered ids, objectives over the "
                 "registered functions (1..32 dims) and random quadratic / max-of-linear functions; every run is distinct and non-trivial "
                 "(>= 1 evaluation, contract evaluated at every logged step)")
    rep.assume("bit-equality of the returned (x, f, g) with a recorded evaluation, finiteness and the CG_DESCENT allowance are computed by the "
               "driver from the counting wrapper's own records; TLC checks provenance, counters, status protocol, ordering and budget arithmetic",
               "the budget clause is evaluated for runs whose solver parameters are at their defaults",
               "gradient-sampling solvers are made reproducible through the NANO_VERIF default seed hook",
               "the three constrained solvers (linear / quadratic penalty, augmented Lagrangian) are not registered in solver_t::all(), so the sweep "
               "never runs them: they run through C05's driver, on functions with constraints (hand-made sets, linear / quadratic programs converted "
               "by nano::make_function, planted empty feasible sets) and on functions with NO constraint at all, with their outer-loop parameters "
               "drawn in their domains in half of the runs (Solve records validated against PenaltyTrace.tla: return contract, counters, budget of "
               "max_outer_iters inner solves each within max_evals + 1100 + 8 n)",
               "the counting wrapper is not always fresh: in a third of the runs it has been evaluated a few times before minimize() (its own log is "
               "then read from the call of minimize() on), so counts reported by the state that include earlier evaluations are over-reports")


def constrained_solvers(rep, tier):
    """the three constrained solvers on functions that HAVE constraints (random linear / quadratic programs with random constraint
    kinds): the return contract of C02 (dimension, reported value = objective re-evaluated at the returned point, stored constraint
    values, finiteness, counters, budget per inner solve) decided by TLC from the Solve records of C05's driver (PenaltyTrace.tla)"""
    work = common.workdir("C02")
    exe = common.build_harness("penalty_driver")["penalty_driver"]
    nproc, ns = (8, 60) if tier == "quick" else (16, 600)

    def drive(i):
        out = os.path.join(work, "constrained_%d.ndjson" % i)
        rc, o, _ = common.run([exe, out, str(common.seed() * 1000 + 700 + i), "0", str(ns)], timeout=3000, check=False)
        rs = common.read_ndjson(out) if os.path.exists(out) else []
        crashed = rc != 0 or not rs or rs[-1].get("case") != -1
        bad = [x for x in rs if x["e"] in ("Abort", "Inexact")]
        rs = [x for x in rs if x["e"] == "Solve"]
        acc, rejects, _ = trace.validate_independent("PenaltyTrace", "PenaltyTrace.cfg", os.path.join(common.SPEC, "penalty"), rs, out + ".tlc",
                                                     tag="c02c_%d" % i)
        return crashed, o, bad, acc, rejects, sum(1 for x in rs if x.get("ncons") == 0 and x["case"] >= 0)

    with ThreadPoolExecutor(nproc) as ex:
        results = list(ex.map(drive, range(nproc)))
    total = nfree = 0
    for crashed, o, bad, acc, rejects, n0 in results:
        nfree += n0
        if crashed:
            rep.violation("constrained-solver driver crashed", payload={"output": o[-3000:]})
        for b in bad[:3]:
            rep.violation("constrained solver threw: %s" % b, payload=b)
        for ev in rejects:
            rep.violation("constrained solver violates the minimiser contract: %s" % str(ev)[:600], payload=ev)
        total += acc
    if not rep.violations and nfree < 20:
        raise CheckError("constrained solvers: only %d runs on functions without constraints" % nfree)
    rep.add(constrained_solver_runs_without_constraints=nfree)
    return total


def replay(rep, path):
    run(rep, "quick")
