"""C16 - tensor addressing: (M) TLC checks the row-major bijection and the view/slice addressing facts for every shape of
small rank/dimension; (E) every index tuple, prefix view, slice, reshape (to rank 1..4, the inferred dimension at every position),
view of a view, gather (all overloads), storage conversion / map assignment and summed-area table (empty tensors included)
of all shapes rank<=4 dims 0..4 (rank 5: 0..3) plus random large shapes is executed on real tensors (ASan/UBSan build) and
re-computed by TLC; every view is read through its constant overload and written through its mutable overload."""
import os
from concurrent.futures import ThreadPoolExecutor

import common
import trace
from common import CheckError

LEVEL = "model_checking"
SPECDIR = os.path.join(common.SPEC, "tensor")


def run(rep, tier):
    work = common.workdir("C16")
    cfgs = ["TensorModel.cfg"] if tier == "quick" else ["TensorModel_t4.cfg", "TensorModel_t5.cfg"]
    for cfg in cfgs:
        r = common.tlc("TensorModel", cfg, SPECDIR, workers=8, timeout=3000)
        rep.add_tlc(r, "TensorModel.tla/" + cfg)
        if not r.ok:
            if r.invariant_violated:
                rep.violation("TensorModel.tla violates %s" % r.invariant_violated, payload=r.out[-4000:])
            else:
                raise CheckError("TLC failed on TensorModel:\n" + r.out[-3000:])
    # unbounded strengthening: for arbitrary positive dimensions the row-major offset is in range and injective (rank 3 directly, and
    # the Horner step that extends it to any rank by induction) - Apalache / Z3 non-linear integer arithmetic, no bound on the dimensions
    res = {}
    for inv in ("StepInRange", "StepInjective", "InRange3", "Injective3"):
        st, out = common.apalache("TensorOffsetInd", SPECDIR, ["--init=Init", "--inv=" + inv, "--length=0"], timeout=600, tag="TensorOffsetInd_" + inv)
        res[inv] = st
        if st == "violation":
            rep.violation("Apalache: %s of TensorOffsetInd.tla fails" % inv, payload=out[-4000:])
    rep.coverage.setdefault("apalache_inductive", []).append({"module": "TensorOffsetInd", "result": res})
    exe = common.build_harness("tensor_driver", "asan")["tensor_driver"]
    parts, md4, md5, nrand = (8, 4, 3, 3) if tier == "quick" else (16, 4, 3, 40)
    env = {"ASAN_OPTIONS": "detect_leaks=0:abort_on_error=0", "UBSAN_OPTIONS": "print_stacktrace=1"}

    def drive(i):
        out = os.path.join(work, "tensor_%d.ndjson" % i)
        rc, o, _ = common.run([exe, out, str(common.seed() * 1000 + i + 1), str(i), str(parts), str(md4), str(md5), str(nrand)],
                              timeout=2400, check=False, env=env)
        rs = common.read_ndjson(out) if os.path.exists(out) else []
        crashed = rc != 0 or not rs or rs[-1].get("marker") != "end"
        acc, rejects, states = trace.validate_independent("TensorTrace", "TensorTrace.cfg", SPECDIR, rs, out + ".tlc", tag="c16_%d" % i)
        kinds = {}
        for x in rs:
            kinds[x["e"]] = kinds.get(x["e"], 0) + 1
        shapes = {tuple(x["d"]) for x in rs if x["e"] == "Offsets"}
        sample = [x for x in rs if x["e"] == "Sub" and len(x["d"]) == 3 and x.get("full") and x["count"] > 2][:1]
        return crashed, o, acc, rejects, kinds, shapes, sample

    with ThreadPoolExecutor(parts) as ex:
        results = list(ex.map(drive, range(parts)))
    total, kinds, shapes = 0, {}, set()
    for crashed, o, acc, rejects, ks, sh, sample in results:
        if crashed:
            rep.violation("tensor driver crashed or was stopped by a sanitizer", payload={"output": o[-4000:]})
        total += acc
        shapes |= sh
        for k, v in ks.items():
            kinds[k] = kinds.get(k, 0) + v
        for ev in rejects:
            small = {k: (v if not isinstance(v, list) or len(v) < 40 else "[%d items]" % len(v)) for k, v in ev.items()}
            rep.violation("tensor operation disagrees with TensorView.tla: %s" % str(small)[:700], payload=ev)
        for s in sample:
            rep.sample(s, limit=3)
    expected = 5 + 25 + 125 + 625 + 4 ** 5
    if not rep.violations and (len(shapes) < expected):
        raise CheckError("tensor driver covered %d shapes, expected >= %d" % (len(shapes), expected))
    rep.add(traces_validated_against_impl=total, records=kinds, shapes_enumerated=len(shapes), exhaustive=True)
    rep.assume("the root buffer holds its own flat indices, so the values read through a view are the offsets it addresses; views larger "
               "than 64 elements are compared by (offset, dims, count, sum of value mod 1000)",
               "writes: the k-th element of a mutable view receives a marker encoding k, the root is then compared element by element "
               "(number of changed elements, flat position where each marker arrived; large views: first position + consecutive) and restored",
               "driver and headers compiled with -fsanitize=address,undefined: an access outside the tensor stops the driver",
               "reshape with an inferred dimension next to a zero-sized one (0/0) is excluded: not a valid access")


def replay(rep, path):
    run(rep, "quick")
