"""C15 - serialisation: (M) TLC on StreamRead.tla (all field programs x all prefix lengths), (V) every strict prefix,
the full stream and every altered tensor payload byte of a corpus of serialised objects read back through a tracing
streambuf (ASan/UBSan build) and validated by TLC against StreamReadTrace.tla."""
import os
from concurrent.futures import ThreadPoolExecutor

import common
import trace
from common import CheckError

LEVEL = "fault_enumeration"
SPECDIR = os.path.join(common.SPEC, "stream")


def run(rep, tier):
    work = common.workdir("C15")
    r = common.tlc("StreamRead", "StreamRead_mc.cfg", SPECDIR, workers=8, timeout=1200)
    rep.add_tlc(r, "StreamRead.tla/StreamRead_mc.cfg (reader mirrors writer)")
    if not r.ok:
        if r.invariant_violated:
            rep.violation("StreamRead.tla violates %s" % r.invariant_violated, payload=r.out[-5000:])
        else:
            raise CheckError("TLC failed on StreamRead.tla:\n" + r.out[-3000:])
    common.negative_control(rep, "StreamRead", "StreamRead_asym.cfg", SPECDIR, "a reader that skips a field must violate an invariant")

    # the corpus is read back twice: everything in the plain build, a smaller corpus in the ASan/UBSan build (every throw is
    # very slow under ASan: __asan_handle_no_return re-maps the stack shadow)
    plans = [("rel", 4, 3), ("asan", 3, 1)] if tier == "quick" else [("rel", 16, 6), ("asan", 12, 2)]
    env = {"ASAN_OPTIONS": "allocator_may_return_null=1:detect_leaks=0:abort_on_error=0", "UBSAN_OPTIONS": "print_stacktrace=1"}
    tasks = []
    for flavour, nproc, scale in plans:
        exe = common.build_harness("stream_driver", flavour)["stream_driver"]
        for i in range(nproc):
            tasks.append((flavour, exe, i, scale))

    def drive(t):
        flavour, exe, i, scale = t
        out = os.path.join(work, "stream_%s_%d.ndjson" % (flavour, i))
        rc, o, _ = common.run([exe, out, str(common.seed() * 1000 + i + 1 + (500 if flavour == "asan" else 0)), str(scale),
                               "1" if flavour == "asan" else "3"],
                              timeout=3000, check=False, env=env)
        return out, rc, o

    with ThreadPoolExecutor(12) as ex:
        outs = list(ex.map(drive, tasks))
    jobs = []
    for out, rc, o in outs:
        rs = common.read_ndjson(out) if os.path.exists(out) else []
        complete = rs and rs[-1].get("kind") == "end-marker"
        aborts = [x for x in rs if x["e"] == "Abort"]
        if rc != 0 or aborts or not complete:
            rep.violation("stream driver crashed or was stopped by a sanitizer (rc=%d) after %s" % (rc, rs[-1] if rs else None),
                          payload={"trace": out, "output": o[-4000:]})
        jobs.append((out, [x for x in rs if x["e"] != "Abort"]))

    def check(job):
        out, recs = job
        return trace.validate("StreamReadTrace", "StreamReadTrace.cfg", SPECDIR, recs, out + ".tlc", tag="c15_" + os.path.basename(out), max_rejects=3)

    with ThreadPoolExecutor(8) as ex:
        results = list(ex.map(check, jobs))
    nobj = ncuts = nflips = nswaps = nv0 = nv0coll = nver = 0
    kinds = set()
    for (out, recs), (acc, rejects, tl) in zip(jobs, results):
        for rj in rejects:
            ev = rj["event"] or {}
            rep.violation("stream trace rejected at %s" % str({k: (v if k != "outcomes" else "...") for k, v in ev.items()})[:300],
                          payload={"event": ev, "kind": rj["kind"], "line": rj["line_in_exec"]})
        for x in recs:
            if x["e"] == "Outcomes" and x["kind"] != "end-marker":
                nobj += 1
                ncuts += x["full"]
                kinds.add(x["kind"].split(":")[0].split("<")[0])
                rep.sample({"object": x["kind"], "bytes": x["full"], "outcome_per_prefix_length": x["outcomes"][:12] + ["..."] + x["outcomes"][-3:]}, limit=4)
            if x["e"] == "Flips":
                nflips += len(x["outcomes"])
            if x["e"] == "Swaps":
                nswaps += len(x["outcomes"])
            if x["e"] == "VersionFlips":
                nver += len(x["outcomes"])
            if x["e"] == "FlipsV0":
                nv0 += len(x["outcomes"])
                nv0coll += len([1 for o, c in zip(x["outcomes"], x["collides"]) if o == 0 and c == 1])
    if not rep.violations and (nobj < 100 or len(kinds) < 10):
        raise CheckError("stream corpus too small: %d objects of kinds %s" % (nobj, sorted(kinds)))
    if not rep.violations and (nswaps < 1000 or nv0 < 1000 or nver < 300):
        raise CheckError("stream corpus too small: %d element swaps, %d alterations of version-0 streams, %d version alterations" % (nswaps, nv0, nver))
    rep.add(payload_element_swaps=nswaps, version0_payload_alterations=nv0, version0_hash_collisions_read=nv0coll, newer_version_alterations=nver)
    rep.add(evaluations=ncuts + nflips, distinct_nontrivial=ncuts, objects=nobj, truncations=ncuts, payload_byte_alterations=nflips,
            object_kinds=sorted(kinds), exhaustive=True, traces_validated_against_impl=nobj,
            rule="every strict prefix length 0..full-1 of every serialised object of the corpus (tensors of 10 scalar types x rank 1..5, "
                 "parameters, features, configured solver/loss/splitter/tuner/line-search objects, fitted weak learners, linear and gboost "
                 "models, unfitted and fitted on regression / classification / multi-output problems; hand-built version-0 tensor streams) plus "
                 "single-byte alterations (one bit, +1, another value; one bit in the sanitizer build) of every byte of every located tensor "
                 "payload (also of the weak learners nested in gboost streams), exchanges of two unequal payload elements and version fields "
                 "altered to a newer version; each (object, offset) pair is a distinct case; an altered version-0 stream may be read only if "
                 "its content collides under the old hash (computed by the driver)")
    rep.assume("driver and library compiled with -fsanitize=address,undefined: an out-of-bounds read or crash stops the driver (reported)",
               "bytes of string/vector length fields are not altered (not tensor payload; readers would allocate up to 4e9 elements)",
               "round-trip identity (equal parameters, bit-identical predictions) is computed by the driver and logged as a boolean")


def replay(rep, path):
    run(rep, "quick")
